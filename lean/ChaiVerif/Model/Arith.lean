/-
M-ARITH — `Boxed_Number::go` / unary `oper` interpreted over the *generated* case tables,
plus `Operators::to_operator` and the function route.  The code has no arithmetic of its own
(the host compiler supplies it), so a row is executed by applying `Spec.Cpp`'s operator to the
operands the row names, in the order the row names them, after the checks the row contains.
-/
import ChaiVerif.Model.ArithTypes
namespace ChaiVerif

/-- A number as `Boxed_Number::visit` sees it.  Floating values are Lean `Float`s (executable
    correspondence only; the kernel never computes with them). -/
inductive Num
  | i (t : IT) (v : Int)
  | f (k : FK) (x : Float)
deriving Inhabited

def Num.isFloat : Num → Bool
  | .f _ _ => true
  | _ => false

/-- Result of one `go`/`oper` call. -/
inductive MRes
  | val (n : Num)      -- `const_var(expr)`: a fresh value
  | bool (b : Bool)
  | lhs (n : Num)      -- `return t_bv`: the lhs handle itself, whose object now holds `n`
  | arithErr           -- chaiscript::exception::arithmetic_error
  | badCast            -- chaiscript::detail::exception::bad_any_cast
  | trap               -- the process would receive SIGFPE
  | ub                 -- C++ leaves the result undefined (not a trap): outside the property
deriving Inhabited

def MRes.isTrap : MRes → Bool
  | .trap => true
  | _ => false

def FK.join : FK → FK → FK
  | .f80, _ | _, .f80 => .f80
  | .f64, _ | _, .f64 => .f64
  | _, _ => .f32

/-- Round a double to the precision of the kind (f80 is carried as a double: type-only). -/
def FK.round (k : FK) (x : Float) : Float :=
  match k with
  | .f32 => x.toFloat32.toFloat
  | _ => x

def Num.toFloat : Num → Float
  | .i _ v => Float.ofInt v
  | .f _ x => x

/-- `static_cast<T>(float)` for an integer target: truncation; UB when out of range or NaN. -/
def floatToInt (t : IT) (x : Float) : Option Int :=
  if x.isNaN || x.isInf then none
  else
    let tr := if x < 0 then x.ceil else x.floor
    let v : Int := if tr < 0 then -((-tr).toUInt64.toNat : Int) else (tr.toUInt64.toNat : Int)
    if t.min ≤ v ∧ v ≤ t.max ∧ tr.abs < 18446744073709551616.0 then some v else none

def floatBin (op : CppOp) (k : FK) (a b : Float) : MRes :=
  match op with
  | .eq => .bool (a == b)
  | .ne => .bool (a != b)
  | .lt => .bool (decide (a < b))
  | .gt => .bool (decide (a > b))
  | .le => .bool (decide (a ≤ b))
  | .ge => .bool (decide (a ≥ b))
  | .add => .val (.f k (k.round (a + b)))
  | .sub => .val (.f k (k.round (a - b)))
  | .mul => .val (.f k (k.round (a * b)))
  | .div => .val (.f k (k.round (a / b)))
  | _ => .badCast

def ofCRes : CRes → MRes
  | .val t v => .val (.i t v)
  | .bool b => .bool b
  | .trap => .trap
  | .ub => .ub

/-- `l op r` at the static types of the operands (what the compiler generates for one cell). -/
def applyBin (op : CppOp) (l r : Num) : MRes :=
  match l, r with
  | .i lt a, .i rt b => ofCRes (cppBin op lt rt a b)
  | .f k a, .i _ b => floatBin op k (k.round a) (k.round (Float.ofInt b))
  | .i _ a, .f k b => floatBin op k (k.round (Float.ofInt a)) (k.round b)
  | .f k1 a, .f k2 b => floatBin op (k1.join k2) a b

/-- Conversion of a prvalue to the type of the lhs object (`*t_lhs = …`). -/
def convertTo (target : Num) (v : Num) : Option Num :=
  match target, v with
  | .i t _, .i _ x => some (.i t (t.wrap x))
  | .i t _, .f _ x => (floatToInt t x).map (.i t)
  | .f k _, .i _ x => some (.f k (k.round (Float.ofInt x)))
  | .f k _, .f _ x => some (.f k (k.round x))

def storeBack (l : Num) (r : MRes) : MRes :=
  match r with
  | .val v => match convertTo l v with
              | some n => .lhs n
              | none => .ub
  | .bool b => match convertTo l (.i IT.i32 (if b then 1 else 0)) with
              | some n => .lhs n
              | none => .ub
  | x => x

/-- Does `check_divide_by_zero(c_rhs)` throw?  (`T` is the static type of the rhs only.) -/
def zeroFires (g : ZeroGuard) (l r : Num) : Bool :=
  match r with
  | .i _ b => b == 0 && (g == .rhsNotFloat || !l.isFloat)
  | .f _ _ => false

/-- Does `check_divide_overflow(c_lhs, c_rhs)` throw?  Only for two integral operands whose
    common type is signed, lhs = min of that type, rhs = -1 (after conversion). -/
def ovfFires (l r : Num) : Bool :=
  match l, r with
  | .i lt a, .i rt b =>
      let c := commonType lt rt
      c.sgn && c.wrap b == -1 && c.wrap a == c.min
  | _, _ => false

/-- `Boxed_Number::go` over a case table.  `lv` = the lhs pointer is non-null. -/
def goModel (rows : List GoRow) (g : ZeroGuard) (op : Oper) (l r : Num) (lv : Bool) : MRes :=
  match rows.find? (fun row => row.opcode == op) with
  | none => .badCast
  | some row =>
    if row.intOnly && (l.isFloat || r.isFloat) then .badCast
    else if row.lvalue && !lv then .badCast
    else if row.zeroCheck && zeroFires g l r then .arithErr
    else if row.ovfCheck && ovfFires l r then .arithErr
    else
      match row.form, row.cpp with
      | .value, some c => if row.inOrder then applyBin c l r else applyBin c r l
      | .compound, some c => storeBack l (if row.inOrder then applyBin c l r else applyBin c r l)
      | .assign, _ => storeBack l (.val r)
      | _, none => .badCast

def applyUn (op : CppUn) (n : Num) : MRes :=
  match n with
  | .i t v =>
      (match op, cppUn op t v with
       | .preinc, .val t' v' => .lhs (.i t' v')
       | .predec, .val t' v' => .lhs (.i t' v')
       | _, r => ofCRes r)
  | .f k x =>
      match op with
      | .neg => .val (.f k (-x))
      | .pos => .val (.f k x)
      | .preinc => .lhs (.f k (k.round (x + 1.0)))
      | .predec => .lhs (.f k (k.round (x - 1.0)))
      | .compl => .badCast

/-- Unary `Boxed_Number::oper` over its case table. -/
def unModel (rows : List UnRow) (op : Oper) (n : Num) (lv : Bool) : MRes :=
  match rows.find? (fun row => row.opcode == op) with
  | none => .badCast
  | some row =>
    match row.region with
    | .lvalue => if lv then applyUn row.op n else .badCast
    | .plain => applyUn row.op n
    | .intOnly => if n.isFloat then .badCast else applyUn row.op n

/-- `get_common_type(size_t, bool)`: a chain of `(t_size == n [&& t_signed]) ? X :` tests with a
    default; a row `(n, needSigned, X)` with `n = 0` is the default. -/
def sizedLookup (tbl : List (Nat × Bool × CT)) (sz : Nat) (sg : Bool) : Option CT :=
  (tbl.find? (fun r => r.1 == 0 || (r.1 == sz && (!r.2.1 || sg)))).map (·.2.2)

/-- `get_common_type(const Boxed_Value&)` for one source type: either a direct class, or
    `get_common_type(sizeof(T), s)` where `s` is a literal or `std::is_signed<T>` (`none`). -/
def commonOf (tbl : List (Nat × Bool × CT)) (abi : SrcType → Nat × Bool)
    (e : SrcType × Option (Option Bool) × Option CT) : Option CT :=
  match e.2.1, e.2.2 with
  | none, some ct => some ct
  | some sg, none => sizedLookup tbl (abi e.1).1 (sg.getD (abi e.1).2)
  | _, _ => none

/-- `Operators::to_operator(text, is_unary)` over the generated switch. -/
def toOperator (cases : List (OpText × Oper × Oper)) (t : OpText) (unary : Bool) : Oper :=
  match cases.find? (fun c => c.1 == t) with
  | some (_, b, u) => if unary then u else b
  | none => .invalid

/-- Overload resolution of the function route, at the level of names: the registered
    `Boxed_Number` wrapper for spelling `t` that takes `n` parameters. -/
def resolveFunction (wrappers : List Wrapper) (registered : List (Oper × OpText)) (t : OpText) (n : Nat) :
    Option (Oper × WForm) :=
  let cands := registered.filter (fun p => p.2 == t)
  let ws := cands.filterMap (fun p => wrappers.find? (fun w => w.name == p.1))
  (ws.find? (fun w => w.nparams == n)).map (fun w => (w.opcode, w.form))

/-- The function route: calling the operator by name dispatches to the registered `Boxed_Number`
    wrapper with that many parameters; the wrapper decides which `oper` overload and opcode are
    used.  Parameters of `Boxed_Number` type taken by value or const reference keep the lhs handle,
    so `lv` is passed through. -/
def routeFunction (goRows : List GoRow) (unRows : List UnRow) (g : ZeroGuard)
    (wrappers : List Wrapper) (registered : List (Oper × OpText))
    (t : OpText) (args : List Num) (lv : Bool) : MRes :=
  match args with
  | [a] =>
      (match resolveFunction wrappers registered t 1 with
       | some (op, .unary) => unModel unRows op a lv
       | some (op, .binaryDummy) => goModel goRows g op a (.i IT.i32 0) lv
       | _ => .badCast)
  | [a, b] =>
      (match resolveFunction wrappers registered t 2 with
       | some (op, .binary) => goModel goRows g op a b lv
       | _ => .badCast)
  | _ => .badCast

/-- The operator-node route for two arithmetic operands (`Binary_Operator`, `Fold_Right_Binary_Operator`,
    `Equation`, and the constant folder, which all do `to_operator(text)` then `Boxed_Number::do_oper`),
    falling back to function dispatch when `to_operator` does not know the spelling. -/
def routeNode (goRows : List GoRow) (unRows : List UnRow) (g : ZeroGuard)
    (cases : List (OpText × Oper × Oper)) (wrappers : List Wrapper) (registered : List (Oper × OpText))
    (t : OpText) (args : List Num) (lv : Bool) : MRes :=
  match args with
  | [a] =>
      let op := toOperator cases t true
      if op != .invalid && op != .bitwise_and then unModel unRows op a lv
      else routeFunction goRows unRows g wrappers registered t args lv
  | [a, b] =>
      let op := toOperator cases t false
      if op != .invalid then goModel goRows g op a b lv
      else routeFunction goRows unRows g wrappers registered t args lv
  | _ => .badCast

end ChaiVerif
