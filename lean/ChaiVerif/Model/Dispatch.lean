/-
M-DISP — `dispatch::dispatch` and `dispatch_with_conversions` (proxy_functions.hpp) over abstract
parameter descriptors `P` and argument values `A`.  What a cast does is a parameter of the model
(`castOk`), so the theorems about the algorithm hold for any cast relation; the concrete relation of
the catalogue is measured on the real `boxed_cast` by the harness and compared with `Spec.castOk`.
-/
namespace ChaiVerif

structure DCfg (P A : Type) where
  bareEq   : P → A → Bool      -- `param_type.bare_equal(arg.get_type_info())`
  compat   : P → A → Bool      -- `compare_type_to_param`
  castOk   : P → A → Bool      -- `boxed_cast<Param>(arg)` succeeds
  arithP   : P → Bool
  arithA   : A → Bool
  sameType : P → A → Bool      -- `arg.get_type_info() == ti` (no conversion needed)
  convert  : P → A → A         -- `Boxed_Number(arg).get_as(ti).bv`
  constA   : A → Bool
  constP   : P → Bool

structure DFn (P : Type) where
  id : Nat
  params : List P

inductive DRes (A : Type)
  | entered (id : Nat) (args : List A)
  | error
deriving Repr

variable {P A : Type}

def numDiffs (c : DCfg P A) (f : DFn P) (args : List A) : Nat :=
  ((f.params.zip args).filter (fun pa => !c.bareEq pa.1 pa.2)).length

/-- every parameter unboxes: the function body is entered -/
def callOk (c : DCfg P A) (f : DFn P) (args : List A) : Bool :=
  f.params.length == args.length && (f.params.zip args).all (fun pa => c.castOk pa.1 pa.2)

/-- `Proxy_Function_Base::filter`: only the first two parameters are looked at -/
def filterOk (c : DCfg P A) (f : DFn P) (args : List A) : Bool :=
  ((f.params.zip args).take 2).all (fun pa => c.compat pa.1 pa.2)

def typesMatchExceptArith (c : DCfg P A) (f : DFn P) (args : List A) : Bool :=
  (f.params.zip args).all (fun pa => c.compat pa.1 pa.2 || (c.arithA pa.2 && c.arithP pa.1))

def convertArgs (c : DCfg P A) (f : DFn P) (args : List A) : List A :=
  (f.params.zip args).map (fun pa => if c.arithP pa.1 && c.arithA pa.2 && !c.sameType pa.1 pa.2 then c.convert pa.1 pa.2 else pa.2)

/-- phase 1: by increasing number of non-exact parameters, first overload that accepts the call -/
def phase1 (c : DCfg P A) (ordered : List (DFn P)) (args : List A) : Option (DFn P) :=
  (List.range (args.length + 1)).findSome? (fun i =>
    ordered.find? (fun f => numDiffs c f args == i && (i == 0 || filterOk c f args) && callOk c f args))

/-- the candidate scan of `dispatch_with_conversions` with its const/non-const tie-break;
    `none` inside `some` = ambiguous -/
def pickConv (c : DCfg P A) (args : List A) : List (DFn P) → Option (DFn P) → Option (Option (DFn P))
  | [], cur => some cur
  | f :: fs, cur =>
    if typesMatchExceptArith c f args then
      match cur with
      | none => pickConv c args fs (some f)
      | some m =>
        match args.head?, m.params.head?, f.params.head? with
        | some a0, some pm, some pf =>
          if c.constA a0 && !c.constP pm && c.constP pf then pickConv c args fs (some f)
          else if !c.constA a0 && !c.constP pm && c.constP pf then pickConv c args fs (some m)
          else none
        | _, _, _ => none
    else pickConv c args fs cur

def dispatch (c : DCfg P A) (fs : List (DFn P)) (args : List A) : DRes A :=
  let ordered := fs.filter (fun f => f.params.length == args.length)
  match phase1 c ordered args with
  | some f => .entered f.id args
  | none =>
    match pickConv c args ordered none with
    | some (some f) =>
        let args' := convertArgs c f args
        if callOk c f args' then .entered f.id args' else .error
    | _ => .error

end ChaiVerif
