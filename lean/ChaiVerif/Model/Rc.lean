/-
M-RC — the ownership discipline behind `Boxed_Value`: every script-visible referrer (a variable in a scope frame, an element slot of a
container, a lambda capture, a bound argument, a saved call parameter, a shared_ptr handed to C++) holds one handle to the object's
`std::shared_ptr<Data>`; handles are only ever made by creating an object or by copying an existing handle; a holder that goes away
(scope exit, normal or by exception; container destroyed; C++ releasing its pointers) drops all its handles; an object is destroyed
when its count reaches zero.
-/
namespace ChaiVerif

structure Rc where
  tags    : List Nat                    -- tag of object i (what it was created with)
  rc      : List Nat                    -- reference count of object i; 0 = destroyed
  log     : List Nat                    -- destruction order (object ids)
  handles : List (Nat × Nat)            -- (holder, object)
deriving Repr, Inhabited, DecidableEq

def Rc.empty : Rc := ⟨[], [], [], []⟩

def Rc.count (s : Rc) (o : Nat) : Nat := (s.handles.filter (fun h => h.2 == o)).length
def Rc.rcOf (s : Rc) (o : Nat) : Nat := s.rc.getD o 0

/-- a new object, owned by `holder` -/
def Rc.create (s : Rc) (holder tag : Nat) : Rc :=
  { s with tags := s.tags ++ [tag], rc := s.rc ++ [1], handles := s.handles ++ [(holder, s.rc.length)] }

/-- copy a handle to object `o` into `holder` (only a live object can be referred to: there is no way back from destruction) -/
def Rc.acquire (s : Rc) (holder o : Nat) : Rc :=
  if s.rcOf o = 0 then s
  else { s with rc := s.rc.set o (s.rcOf o + 1), handles := s.handles ++ [(holder, o)] }

/-- one handle to `o` is dropped -/
def Rc.dropOne (s : Rc) (o : Nat) : Rc :=
  if s.rcOf o = 1 then { s with rc := s.rc.set o 0, log := s.log ++ [o] }
  else { s with rc := s.rc.set o (s.rcOf o - 1) }

def Rc.dropAll (s : Rc) : List Nat → Rc
  | [] => s
  | o :: os => Rc.dropAll (s.dropOne o) os

/-- `holder` goes away: all its handles are dropped -/
def Rc.release (s : Rc) (holder : Nat) : Rc :=
  let gone := (s.handles.filter (fun h => h.1 == holder)).map (·.2)
  Rc.dropAll { s with handles := s.handles.filter (fun h => !(h.1 == holder)) } gone

/-- tags of the objects alive, in object order -/
def Rc.liveTags (s : Rc) : List Nat :=
  ((List.range s.rc.length).filter (fun o => s.rcOf o != 0)).map (fun o => s.tags.getD o 0)

inductive RcOp
  | create (holder tag : Nat)
  | acquire (holder o : Nat)
  | release (holder : Nat)
deriving Repr, DecidableEq

def Rc.step (s : Rc) : RcOp → Rc
  | .create h t => s.create h t
  | .acquire h o => s.acquire h o
  | .release h => s.release h

end ChaiVerif
