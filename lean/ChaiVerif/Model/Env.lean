/-
M-ENV — the engine's global environment (`Dispatch_Engine::State` + `m_used_files` +
`m_active_loaded_modules`), `add_function` with its conflict test and the three function tables
kept in step, globals, types, `use`, and `get_state` / `set_state`.  Names are `Nat` ids.
-/
namespace ChaiVerif

/-- A registered function: what distinguishes overloads (`operator==` on Proxy_Functions) is the
    signature; `tag` identifies the body so that observations can tell versions apart. -/
structure Fn where
  sig : Nat        -- arity / parameter-type signature id
  tag : Nat
  arith : Bool     -- has an arithmetic parameter (single functions are then wrapped for conversions)
deriving DecidableEq, Repr, Inhabited

/-- What `m_function_objects[name]` / `m_boxed_functions[name]` hold. -/
inductive FnObj
  | single (f : Fn)
  | dispatch (fs : List Fn)
deriving DecidableEq, Repr, Inhabited

structure Env where
  functions : List (Nat × List Fn)     -- m_functions : name ↦ overload vector (a value)
  fnObjects : List (Nat × FnObj)       -- m_function_objects
  boxedFns  : List (Nat × FnObj)       -- m_boxed_functions
  globals   : List (Nat × Int)
  types     : List (Nat × Nat)
  usedFiles : List Nat
  modules   : List Nat
deriving DecidableEq, Repr, Inhabited

def Env.empty : Env := ⟨[], [], [], [], [], [], []⟩

def setKey {α} (k : Nat) (v : α) : List (Nat × α) → List (Nat × α)
  | [] => [(k, v)]
  | (k', v') :: rest => if k = k' then (k, v) :: rest else (k', v') :: setKey k v rest

/-- stable insertion sort key used by `function_less_than` in the model: by signature -/
def insertBySig (f : Fn) : List Fn → List Fn
  | [] => [f]
  | g :: gs => if f.sig < g.sig then f :: g :: gs else g :: insertBySig f gs

inductive EnvErr | nameConflict | notConst | missing
deriving DecidableEq, Repr, Inhabited

/-- `Dispatch_Engine::add_function`. -/
def addFunction (e : Env) (name : Nat) (f : Fn) : Except EnvErr Env :=
  match e.functions.lookup name with
  | some vec =>
      if vec.any (fun g => g.sig == f.sig) then .error .nameConflict
      else
        let vec' := insertBySig f vec                      -- copy, push_back, stable_sort, publish a new vector
        .ok { e with functions := setKey name vec' e.functions,
                     fnObjects := setKey name (.dispatch vec') e.fnObjects,
                     boxedFns := setKey name (.dispatch vec') e.boxedFns }
  | none =>
      let obj := if f.arith then FnObj.dispatch [f] else FnObj.single f
      .ok { e with functions := setKey name [f] e.functions,
                   fnObjects := setKey name obj e.fnObjects,
                   boxedFns := setKey name obj e.boxedFns }

def addGlobalConst (e : Env) (name : Nat) (v : Int) : Except EnvErr Env :=
  if (e.globals.lookup name).isSome then .error .nameConflict else .ok { e with globals := setKey name v e.globals }

def setGlobal (e : Env) (name : Nat) (v : Int) : Env := { e with globals := setKey name v e.globals }

/-- `add(Type_Info, name)` first registers the global constant `name_type`, which raises
    name_conflict_error when the name is taken; only then is `m_types` extended. -/
def addType (e : Env) (name ty : Nat) : Except EnvErr Env :=
  if (e.types.lookup name).isSome then .error .nameConflict else .ok { e with types := e.types ++ [(name, ty)] }

/-- `use(file)`: returns whether the file was evaluated now. -/
def useFile1 (e : Env) (file : Nat) : Env × Bool :=
  if e.usedFiles.contains file then (e, false) else ({ e with usedFiles := file :: e.usedFiles }, true)

inductive EnvOp
  | addFn (name : Nat) (f : Fn)
  | addConst (name : Nat) (v : Int)
  | setGlobal (name : Nat) (v : Int)
  | addType (name ty : Nat)
  | use (file : Nat)
  | local_ (name : Nat) (v : Int)         -- a top-level `var`: per-thread, not part of the state
  | get                                   -- push a snapshot
  | set (k : Nat)                         -- restore snapshot k (if it exists)
deriving DecidableEq, Repr, Inhabited

structure Sys where
  env    : Env
  locals : List (Nat × Int)
  snaps  : List Env
  evals  : List Nat                        -- files evaluated by `use`, oldest first
deriving DecidableEq, Repr, Inhabited

def Sys.init : Sys := ⟨Env.empty, [], [], []⟩

/-- One step; the Bool says whether the operation succeeded (false = it raised, state unchanged). -/
def sysStep (s : Sys) : EnvOp → Sys × Bool
  | .addFn n f => match addFunction s.env n f with
      | .ok e => ({ s with env := e }, true)
      | .error _ => (s, false)
  | .addConst n v => match addGlobalConst s.env n v with
      | .ok e => ({ s with env := e }, true)
      | .error _ => (s, false)
  | .setGlobal n v => ({ s with env := setGlobal s.env n v }, true)
  | .addType n t => match addType s.env n t with
      | .ok e => ({ s with env := e }, true)
      | .error _ => (s, false)
  | .use f => let r := useFile1 s.env f; ({ s with env := r.1, evals := if r.2 then s.evals ++ [f] else s.evals }, true)
  | .local_ n v => ({ s with locals := setKey n v s.locals }, true)
  | .get => ({ s with snaps := s.snaps ++ [s.env] }, true)
  | .set k => match s.snaps[k]? with
      | some e => ({ s with env := e }, true)
      | none => (s, false)

def sysRun (s : Sys) (ops : List EnvOp) : Sys := ops.foldl (fun s op => (sysStep s op).1) s

/-- The three function tables are in step. -/
def wrapOf (vec : List Fn) : FnObj :=
  match vec with
  | [f] => if f.arith then .dispatch [f] else .single f
  | fs => .dispatch fs

def Env.InStep (e : Env) : Prop :=
  e.fnObjects = e.boxedFns ∧ e.functions.map (·.1) = e.fnObjects.map (·.1) ∧
  ∀ n vec, e.functions.lookup n = some vec → vec ≠ [] ∧ e.fnObjects.lookup n = some (wrapOf vec)

end ChaiVerif
