/-
M-WS — the bottom layer of the lexer: `ChaiScript_Parser::SkipWS(skip_cr)` and `SkipComment()` (with `Symbol_`, `Char_`, `Eol_` as they
are used there) over the input bytes and a cursor index.  Every token function of the parser starts with `SkipWS()`, so this is what
decides which bytes of the input are dropped without ever reaching the grammar.

  SkipWS:      while (has_more) { if (byte > 0x7e) throw "Illegal character";
                                  end_line = *p != 0 && (*p == '\n' || (*p == '\r' && *(p + 1) == '\n'));
                                  if (white(*p) || (skip_cr && end_line)) { if (end_line && *p == '\r') ++p;  ++p; }
                                  else if (SkipComment()) {} else break; }
  SkipComment: "/*" … up to and including the first "*/" (or the end of the input)
               "//" or "#" … up to, not including, the next "\r\n" or '\n' (or the end of the input)

`*p` at the end of the buffer is the sentinel 0 (Position::operator*, model M-POS).  Loops take fuel; `skipWS_never_out_of_fuel` shows
that the length of the input is always enough.
-/
namespace ChaiVerif.Ws

/-- `*m_position` (0 at the end) -/
def byteAt (s : List Nat) (i : Nat) : Nat := s.getD i 0

/-- `Symbol_(sym)` would match at `i` (it then advances by `sym.length`) -/
def symAt (s : List Nat) (i : Nat) (sym : List Nat) : Bool := decide (i + sym.length ≤ s.length) && ((s.drop i).take sym.length == sym)

def white (c : Nat) : Bool := c == 32 || c == 9

/-- the loop of a `/*` comment, entered after the opener: position after the first `*/`, or the end.
    `Eol_()` inside takes "\r\n" in one step; '\n', ';' and every other byte are one step. -/
def multi (s : List Nat) : Nat → Nat → Nat
  | 0, i => i
  | f + 1, i =>
    if i < s.length then
      if symAt s i [42, 47] then i + 2
      else if symAt s i [13, 10] then multi s f (i + 2)
      else multi s f (i + 1)
    else i

/-- the loop of a `//` or `#` comment, entered after the opener: stops in front of the line end (`m_position -= 2` / `--m_position`) -/
def single (s : List Nat) : Nat → Nat → Nat
  | 0, i => i
  | f + 1, i =>
    if i < s.length then
      if symAt s i [13, 10] then i
      else if byteAt s i == 10 then i
      else single s f (i + 1)
    else i

/-- `SkipComment()`: where the cursor is afterwards, `none` when there is no comment here -/
def skipComment (s : List Nat) (i : Nat) : Option Nat :=
  if symAt s i [47, 42] then some (multi s s.length (i + 2))
  else if symAt s i [47, 47] then some (single s s.length (i + 2))
  else if symAt s i [35] then some (single s s.length (i + 1))
  else none

inductive Res
  | ok (moved : Bool) (i : Nat)     -- return value of SkipWS and the cursor afterwards
  | illegal (i : Nat)               -- eval_error("Illegal character") at i
  | fuel
deriving DecidableEq, Repr, Inhabited

def endLine (s : List Nat) (i : Nat) : Bool :=
  let c := byteAt s i
  c != 0 && (c == 10 || (c == 13 && byteAt s (i + 1) == 10))

def skipWS (s : List Nat) (skipCr : Bool) : Nat → Nat → Bool → Res
  | 0, _, _ => .fuel
  | f + 1, i, moved =>
    if i < s.length then
      if byteAt s i > 126 then .illegal i
      else if white (byteAt s i) || (skipCr && endLine s i) then
        skipWS s skipCr f (if endLine s i && byteAt s i == 13 then i + 2 else i + 1) true
      else
        match skipComment s i with
        | some j => skipWS s skipCr f j true
        | none => .ok moved i
    else .ok moved i

/-- `SkipWS(skip_cr)` from cursor `i` -/
def skip (s : List Nat) (skipCr : Bool) (i : Nat) : Res := skipWS s skipCr (s.length + 1 - i) i false

end ChaiVerif.Ws
