/-
M-FLATMAP: utility::QuickFlatMap (the engine's function, overload and function-object tables): linear `find`, the hinted `find(key, hint)` the
call sites use with the slot they remembered, and `insert_or_assign` / `operator[]`.  Props/C15 proves that a hint never changes the answer.
-/
namespace ChaiVerif.FlatMap

variable {K V : Type} [DecidableEq K]

/-- `find(s)`: the first slot whose key equals `s` -/
def find (d : List (K × V)) (k : K) : Option Nat := d.findIdx? (fun e => e.1 == k)

/-- `find(s, hint)` as the source has it: `checksBounds` / `checksKey` say which of the two tests the condition makes -/
def findHint (checksBounds checksKey : Bool) (d : List (K × V)) (k : K) (hint : Nat) : Option Nat :=
  if (!checksBounds || decide (hint < d.length)) && (!checksKey || (match d[hint]? with | some e => e.1 == k | none => false)) then some hint
  else find d k

/-- `insert_or_assign` / `operator[]`: overwrite the slot of an existing key, else append -/
def insertOrAssign (d : List (K × V)) (k : K) (v : V) : List (K × V) :=
  match find d k with
  | some i => d.set i (k, v)
  | none => d ++ [(k, v)]

def KeysDistinct (d : List (K × V)) : Prop := (d.map (·.1)).Nodup

end ChaiVerif.FlatMap
