/-
M-TLS — `Thread_Storage<T>` (chaiscript_threading.hpp): every engine owns a few of these (the Stack_Holder with the thread's local
variables, the conversion saves); each is a key into a `thread_local` map.  After fix 3f66453 the key is an id drawn from a process-wide
counter that is never reused; the destructor erases the entry of the destroying thread only.

`Tls α`: the counter and, per thread, the map from key to that thread's data of the keyed storage.
-/
namespace ChaiVerif

structure Tls (α : Type) where
  counter : Nat                          -- last id handed out
  maps : List (Nat × List (Nat × α))     -- thread ↦ (key ↦ data); a thread not listed has an empty map
deriving Repr, Inhabited

namespace Tls
variable {α : Type}

def empty : Tls α := ⟨0, []⟩

/-- `Thread_Storage()` -/
def newStorage (s : Tls α) : Tls α × Nat := ({ s with counter := s.counter + 1 }, s.counter + 1)

def mapOf (s : Tls α) (th : Nat) : List (Nat × α) := (s.maps.lookup th).getD []

/-- what thread `th` currently holds for storage `key` -/
def peek (s : Tls α) (th key : Nat) : Option α := (s.mapOf th).lookup key

def setMap (s : Tls α) (th : Nat) (m : List (Nat × α)) : Tls α :=
  { s with maps := (th, m) :: s.maps.filter (fun p => !(p.1 == th)) }

/-- `operator*` / `operator->` on thread `th`: the entry, default-constructed on first use -/
def access (s : Tls α) (th key : Nat) (dflt : α) : Tls α × α :=
  match s.peek th key with
  | some v => (s, v)
  | none => (s.setMap th ((key, dflt) :: s.mapOf th), dflt)

/-- store through the reference `operator*` returned -/
def write (s : Tls α) (th key : Nat) (v : α) : Tls α :=
  s.setMap th ((key, v) :: (s.mapOf th).filter (fun p => !(p.1 == key)))

/-- `~Thread_Storage()` running on thread `th`: only that thread's entry goes away -/
def destroy (s : Tls α) (th key : Nat) : Tls α :=
  s.setMap th ((s.mapOf th).filter (fun p => !(p.1 == key)))

/-- every key present in any thread's map was handed out by the counter -/
def KeysBounded (s : Tls α) : Prop := ∀ th key v, s.peek th key = some v → key ≤ s.counter

end Tls

/-- the flawed variant kept for the record: keys are addresses, which the allocator reuses -/
structure TlsAddr (α : Type) where
  maps : List (Nat × List (Nat × α))
deriving Repr, Inhabited

end ChaiVerif
