/-
M-COW: the overload vector of a function name under concurrent readers (Dispatch_Engine::add_function / get_function).
A reader takes a shared_ptr to the current vector (under the shared lock) and then walks it WITHOUT any lock; a writer (under the
unique lock) copies the current vector, appends to the copy and publishes the copy as a new object.  Vectors live in an append-only
store, so a published vector never changes: whatever a reader walks is one version, the one that was current when it looked.
The in-place variant (the writer appends to the current vector itself) is modelled too, with a proved counterexample.
-/
namespace ChaiVerif.Cow

structure St where
  vecs : List (List Nat) := [[]]        -- the store of vector objects (index = identity); never shrinks
  cur : Nat := 0                        -- the vector the function table points at
  held : List (Nat × Nat) := []         -- readers: (reader id, vector it holds)
deriving Repr, DecidableEq

inductive Move
  | acquire (r : Nat)                   -- reader r: get_function (shared lock), keeps the shared_ptr
  | add (f : Nat)                       -- writer: add_function (unique lock): copy, push_back, publish
  | addInPlace (f : Nat)                -- the broken variant: push_back on the published vector
deriving Repr, DecidableEq

def step (s : St) : Move → St
  | .acquire r => { s with held := (r, s.cur) :: s.held.filter (·.1 != r) }
  | .add f => { s with vecs := s.vecs ++ [(s.vecs.getD s.cur []) ++ [f]], cur := s.vecs.length }
  | .addInPlace f => { s with vecs := s.vecs.set s.cur ((s.vecs.getD s.cur []) ++ [f]) }

def run (s : St) (ms : List Move) : St := ms.foldl step s

/-- what reader r sees when it walks its vector now -/
def view (s : St) (r : Nat) : Option (List Nat) := (s.held.lookup r).map (fun id => s.vecs.getD id [])

def copying : Move → Bool
  | .addInPlace _ => false
  | _ => true

end ChaiVerif.Cow
