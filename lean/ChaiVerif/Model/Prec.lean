/-
M-PREC — the operator-precedence core of the parser: `ChaiScript_Parser::Operator(t_precedence)`, `Operator_Helper`, `Prefix`
and the parenthesised branch of `Value`, over a token list.

  Operator(p):  if m_operators[p] != Prefix:  if Operator(p+1) { while (Operator_Helper(p, oper)) { Operator(p+1) or throw;
                                                   Ternary_Cond: Symbol(":") or throw; Operator(p) or throw; build If
                                                   otherwise   : build Binary / Logical_And / Logical_Or } }
                else Value()

`build_match(prev_stack_top)` wraps everything matched since the function was entered, so every pass of the loop makes the tree built so
far the LEFT child of the new node.  Tokens stand for what `Symbol` / `Id` / `Char` deliver (white space, line breaks after an operator
and maximal munch are the lexer's: C16 / C01).  The tables (`bin`: the level whose `m_<level>` array lists a symbol; `pfx`: the array
in `Prefix`) are regenerated from the source (Gen/Prec.lean).  One fuel-recursive function over a job sum, as everywhere in this library.
-/
namespace ChaiVerif.Prec

structure Cfg where
  N : Nat                       -- index of the Prefix level in `m_operators` (11)
  bin : Nat → Option Nat        -- symbol → level of the operator array that lists it (binary levels 1 … N-1)
  pfx : Nat → Bool              -- symbol is in `prefix_opers`

inductive Tok
  | atom (n : Nat)              -- an identifier / number / anything `Dot_Fun_Array` takes as one value
  | sym (s : Nat)               -- an operator symbol
  | lp | rp | q | colon
  | asg (s : Nat)               -- an assignment symbol (`=`, `:=`, `+=` …): read by Equation(), never by Operator()
deriving DecidableEq, Repr, Inhabited

inductive E
  | atom (n : Nat)
  | pre (s : Nat) (e : E)       -- Prefix node
  | bin (s : Nat) (a b : E)     -- Binary_Operator / Logical_And / Logical_Or node (two children: left, right)
  | tern (c t e : E)            -- If node built by the Ternary_Cond level
deriving DecidableEq, Repr, Inhabited

inductive Res
  | ok (x : E) (rest : List Tok)
  | nomatch                     -- the function returned false without consuming anything
  | error                       -- eval_error("Incomplete … expression")
  | fuel
deriving DecidableEq, Repr, Inhabited

inductive Job
  | level (l : Nat) (ts : List Tok)            -- Operator(l)
  | loop (l : Nat) (x : E) (ts : List Tok)     -- the while loop of Operator(l) with `x` built so far

def run (c : Cfg) : Nat → Job → Res
  | 0, _ => .fuel
  | f + 1, .level l ts =>
    if c.N ≤ l then                            -- Value(): Dot_Fun_Array (atoms, parentheses) || Prefix
      match ts with
      | .atom n :: r => .ok (.atom n) r
      | .lp :: r =>
        match run c f (.level 0 r) with
        | .ok x (.rp :: r') => .ok x r'
        | .ok _ _ => .error                    -- missing ')'
        | .nomatch => .error                   -- '(' with no expression
        | e => e
      | .sym s :: r =>
        if c.pfx s then
          match run c f (.level c.N r) with    -- Operator(m_operators.size() - 1)
          | .ok x r' => .ok (.pre s x) r'
          | .nomatch => .error
          | e => e
        else .nomatch
      | _ => .nomatch
    else
      match run c f (.level (l + 1) ts) with
      | .ok x r => run c f (.loop l x r)
      | e => e
  | f + 1, .loop l x ts =>
    match ts with
    | .q :: r =>
      if l = 0 then
        match run c f (.level 1 r) with        -- Operator(t_precedence + 1)
        | .ok t (.colon :: r') =>
          match run c f (.level 0 r') with     -- Operator(t_precedence): the else branch is parsed at the same level (right associative)
          | .ok e r'' => run c f (.loop 0 (.tern x t e) r'')
          | .nomatch => .error
          | e => e
        | .ok _ _ => .error                    -- no ':'
        | .nomatch => .error
        | e => e
      else .ok x ts
    | .sym s :: r =>
      if c.bin s = some l ∧ l ≠ 0 then
        match run c f (.level (l + 1) r) with
        | .ok y r' => run c f (.loop l (.bin s x y) r')
        | .nomatch => .error
        | e => e
      else .ok x ts
    | _ => .ok x ts

/-! ### printing with the fewest parentheses -/

/-- the level at which a tree is an operand without parentheses -/
def lev (c : Cfg) : E → Nat
  | .atom _ => c.N
  | .pre _ _ => c.N
  | .bin s _ _ => (c.bin s).getD c.N
  | .tern _ _ _ => 0

mutual
  /-- the tokens of `e` without outer parentheses -/
  def raw (c : Cfg) : E → List Tok
    | .atom n => [.atom n]
    | .pre s e => .sym s :: (if c.N ≤ lev c e then raw c e else .lp :: raw c e ++ [.rp])
    | .bin s a b =>
        let l := (c.bin s).getD c.N
        (if l ≤ lev c a then raw c a else .lp :: raw c a ++ [.rp]) ++ .sym s :: (if l + 1 ≤ lev c b then raw c b else .lp :: raw c b ++ [.rp])
    | .tern x t e =>
        (if 1 ≤ lev c x then raw c x else .lp :: raw c x ++ [.rp]) ++ .q :: (if 1 ≤ lev c t then raw c t else .lp :: raw c t ++ [.rp]) ++ .colon :: raw c e
end

/-- `e` as an operand of an operator of level `l`: parenthesised exactly when it binds looser -/
def «show» (c : Cfg) (l : Nat) (e : E) : List Tok := if l ≤ lev c e then raw c e else .lp :: raw c e ++ [.rp]

/-- trees the parser can build: prefix symbols are prefix symbols, binary symbols sit in a binary level -/
def wf (c : Cfg) : E → Bool
  | .atom _ => true
  | .pre s e => c.pfx s && wf c e
  | .bin s a b => (match c.bin s with | some l => decide (1 ≤ l ∧ l < c.N) | none => false) && wf c a && wf c b
  | .tern x t e => wf c x && wf c t && wf c e

/-! ### Equation(): `Operator()` then, if one of the assignment symbols follows, `Equation()` again — assignments nest to the right -/

/-- what Equation() builds: an operator expression, or `lhs <asg> (rest of the equation)` -/
inductive Q
  | expr (e : E)
  | eq (s : Nat) (l : E) (r : Q)      -- Equation node: text = the symbol, children = left-hand side, right-hand side
deriving DecidableEq, Repr, Inhabited

inductive ResQ
  | ok (x : Q) (rest : List Tok)
  | nomatch | error | fuel
deriving DecidableEq, Repr, Inhabited

/-- `asgs`: the symbols of the initializer list in Equation() -/
def runEq (c : Cfg) (asgs : List Nat) : Nat → List Tok → ResQ
  | 0, _ => .fuel
  | f + 1, ts =>
    match run c f (.level 0 ts) with
    | .ok x (.asg s :: r) =>
      if asgs.contains s then
        match runEq c asgs f r with
        | .ok y r' => .ok (.eq s x y) r'
        | .nomatch => .error                       -- "Incomplete equation"
        | e => e
      else .ok (.expr x) (.asg s :: r)
    | .ok x r => .ok (.expr x) r
    | .nomatch => .nomatch
    | .error => .error
    | .fuel => .fuel

def rawQ (c : Cfg) : Q → List Tok
  | .expr e => raw c e
  | .eq s l r => raw c l ++ .asg s :: rawQ c r

def wfQ (c : Cfg) (asgs : List Nat) : Q → Bool
  | .expr e => wf c e
  | .eq s l r => asgs.contains s && wf c l && wfQ c asgs r

end ChaiVerif.Prec
