/- Types for the census of registered container operations (Gen/Stl.lean). -/
namespace ChaiVerif

inductive StlContainer | vector | string | map | pair | list
deriving DecidableEq, Repr, Inhabited

inductive StlOwner | container | range | pair
deriving DecidableEq, Repr, Inhabited

inductive StlMember
  | front | back | pop_back | pop_front | push_back | push_front | index | at | insert | erase | resize | reserve
  | capacity | size | empty | clear | find | rfind | find_first_of | find_last_of | find_last_not_of | find_first_not_of
  | substr | c_str | data | append_char | first | second | count | assign | insert_at | erase_at | mapIndex | wait | get | valid | other
deriving DecidableEq, Repr, Inhabited

inductive StlGuard | none | emptyCheck | atCall | helper
deriving DecidableEq, Repr, Inhabited

inductive PosGuard | none | posLe | posLt | other
deriving DecidableEq, Repr, Inhabited

structure StlRow where
  container : StlContainer
  owner     : StlOwner
  member    : StlMember
  guard     : StlGuard
  direct    : Bool
deriving DecidableEq, Repr, Inhabited

end ChaiVerif
