/-
M-JSON — `JSON::dump`, `json_escape` and `JSONParser` (utility/json.hpp) over byte lists with an
explicit offset.  `str.at(i)` is `at?` (out of range = the std::out_of_range the code relies on);
loops take fuel (the input length bounds every loop and the recursion).
-/
namespace ChaiVerif

inductive J
  | null
  | bool (b : Bool)
  | int (i : Int)
  | dbl (neg : Bool) (digits : List Nat) (exp : Int)    -- uninterpreted floating token (value compared outside Lean)
  | str (s : List Nat)
  | arr (xs : List J)
  | obj (kvs : List (List Nat × J))
deriving Repr, Inhabited

inductive JErr | outOfRange | runtime | depth | fuel
deriving DecidableEq, Repr, Inhabited

abbrev JR (α : Type) := Except JErr α

def at? (s : List Nat) (i : Nat) : JR Nat :=
  match s[i]? with
  | some c => .ok c
  | none => .error .outOfRange

def isSpace (c : Nat) : Bool := c == 32 || (9 ≤ c && c ≤ 13)

/-- `consume_ws`: `while (isspace(str.at(offset)) && offset <= str.size()) ++offset;` -/
def consumeWs (s : List Nat) : Nat → Nat → JR Nat
  | 0, _ => .error .fuel
  | f + 1, off => do
    let c ← at? s off
    if isSpace c then consumeWs s f (off + 1) else pure off

/-- One character of `json_escape`. -/
def escChar (c : Nat) : List Nat :=
  if c == 34 then [92, 34] else if c == 92 then [92, 92] else if c == 8 then [92, 98] else if c == 12 then [92, 102]
  else if c == 10 then [92, 110] else if c == 13 then [92, 114] else if c == 9 then [92, 116] else [c]

/-- `json_escape` -/
def jsonEscape : List Nat → List Nat
  | [] => []
  | c :: cs => escChar c ++ jsonEscape cs

def isHexC (c : Nat) : Bool := (48 ≤ c && c ≤ 57) || (97 ≤ c && c ≤ 102) || (65 ≤ c && c ≤ 70)

/-- The single-character escapes of `parse_string`. -/
def unescChar (e : Nat) : Option Nat :=
  if e == 34 then some 34 else if e == 92 then some 92 else if e == 47 then some 47 else if e == 98 then some 8
  else if e == 102 then some 12 else if e == 110 then some 10 else if e == 114 then some 13 else if e == 116 then some 9 else none

/-- `parse_string`: `off` is the index of the character *before* the next one to read (initially the
    opening quote); returns (value, offset after the closing quote). -/
def parseString (s : List Nat) : Nat → Nat → List Nat → JR (List Nat × Nat)
  | 0, _, _ => .error .fuel
  | f + 1, off, acc =>
    -- `c = str.at(++offset)`
    match s[off + 1]? with
    | none => .error .outOfRange
    | some c =>
      if c = 34 then .ok (acc, off + 2)
      else if c = 92 then
        match s[off + 2]? with
        | none => .error .outOfRange
        | some e =>
          match unescChar e with
          | some b => parseString s f (off + 2) (acc ++ [b])
          | none =>
            if e = 117 then do
              let c1 ← at? s (off + 3)
              if !isHexC c1 then .error .runtime else
              let c2 ← at? s (off + 4)
              if !isHexC c2 then .error .runtime else
              let c3 ← at? s (off + 5)
              if !isHexC c3 then .error .runtime else
              let c4 ← at? s (off + 6)
              if !isHexC c4 then .error .runtime else
              parseString s f (off + 6) (acc ++ [92, 117, c1, c2, c3, c4])
            else parseString s f (off + 2) (acc ++ [92])
      else parseString s f (off + 1) (acc ++ [c])

/-- `parse_num<int64_t>`: leading digits, wrapping like the two's-complement arithmetic the compiler emits. -/
def wrap64 (v : Int) : Int :=
  let r := v % 18446744073709551616
  if r ≥ 9223372036854775808 then r - 18446744073709551616 else r

def parseNumInt (ds : List Nat) : Int :=
  let rec go : List Nat → Int → Int
    | [], t => t
    | c :: cs, t => if c < 48 || c > 57 then t else go cs (wrap64 (wrap64 (t * 10) + (c - 48 : Nat)))
  go ds 0

def isDigit (c : Nat) : Bool := 48 ≤ c && c ≤ 57
def isTerm (c : Nat) : Bool := isSpace c || c == 44 || c == 93 || c == 125

/-- The mantissa loop of `parse_number`: (val, isDouble, last char read `c`, offset after it). -/
def numMantissa (s : List Nat) : Nat → Nat → List Nat → Bool → Nat → (List Nat × Bool × Nat × Nat)
  | 0, off, val, dbl, c => (val, dbl, c, off)
  | f + 1, off, val, dbl, c =>
    match s[off]? with
    | none => (val, dbl, c, off)                       -- `offset < str.size()` fails: loop ends, c keeps its last value
    | some ch =>
      if isDigit ch then numMantissa s f (off + 1) (val ++ [ch]) dbl ch
      else if ch == 46 && !dbl then numMantissa s f (off + 1) (val ++ [ch]) true ch
      else (val, dbl, ch, off + 1)                     -- break (after `offset++`)

def numExponent (s : List Nat) : Nat → Nat → List Nat → JR (List Nat × Nat)
  | 0, off, e => pure (e, off)
  | f + 1, off, e =>
    match s[off]? with
    | none => pure (e, off)
    | some ch =>
      if isDigit ch then numExponent s f (off + 1) (e ++ [ch])
      else if !isTerm ch then .error .runtime
      else pure (e, off + 1)

/-- `parse_number`; `off` at '-' or the first digit. -/
def parseNumber (s : List Nat) (off : Nat) : JR (J × Nat) := do
  let n := s.length
  let (neg, off) := if s[off]? == some 45 then (true, off + 1) else (false, off)
  let (val, isD, c, off) := numMantissa s (n + 1) off [] false 0
  let (expStr, off) ←
    if off < n && (c == 69 || c == 101) then do
      let c2 ← at? s off
      let off := off + 1
      let (expNeg, off) := if c2 == 45 then (true, off) else if c2 == 43 then (false, off) else (false, off - 1)
      let (e, off) ← numExponent s (n + 1) off []
      pure (some (expNeg, e), off)
    else if off < n && (!isTerm c) then .error .runtime
    else pure (none, off)
  let off := off - 1                                   -- `--offset` (size_t: the code never reaches 0 - 1 here)
  match expStr with
  | some (expNeg, e) =>
      let ev := parseNumInt e * (if expNeg then -1 else 1)
      -- `if (isDouble) … else if (!exp_str.empty()) … else integral`: an 'e' with no digits leaves an integer
      if isD || !e.isEmpty then pure (.dbl neg val ev, off)
      else pure (.int (wrap64 ((if neg then -1 else 1) * parseNumInt val)), off)
  | none =>
      if isD then pure (.dbl neg val 0, off)
      else pure (.int (wrap64 ((if neg then -1 else 1) * parseNumInt val)), off)

def substrEq (s : List Nat) (off : Nat) (lit : List Nat) : Bool := (s.drop off).take lit.length == lit

/-- QuickFlatMap `operator[]=`: replace in place or append. -/
def objSet (kvs : List (List Nat × J)) (k : List Nat) (v : J) : List (List Nat × J) :=
  if kvs.any (fun p => p.1 == k) then kvs.map (fun p => if p.1 == k then (k, v) else p) else kvs ++ [(k, v)]

def J.toStr : J → List Nat
  | .str s => s
  | _ => []

def maxDepth : Nat := 512

inductive PJob
  | next (off : Nat)
  | arrayLoop (off : Nat) (acc : List J)
  | objectLoop (off : Nat) (acc : List (List Nat × J))

/-- `parse_next` / `parse_array` / `parse_object` as one fuel-recursive function over a job sum.
    `depth` = number of active `parse_next` frames (the `Depth_Guard` counter). -/
def parseJ (s : List Nat) : Nat → Nat → PJob → JR (J × Nat)
  | 0, _, _ => .error .fuel
  | f + 1, depth, .next off => do
    if depth + 1 > maxDepth then .error .depth else
    let off ← consumeWs s (s.length + 2) off
    let c ← at? s off
    if c == 91 then do                                  -- '['
      let off ← consumeWs s (s.length + 2) (off + 1)
      let c ← at? s off
      if c == 93 then pure (.arr [], off + 1) else parseJ s f (depth + 1) (.arrayLoop off [])
    else if c == 123 then do                            -- '{'
      let off ← consumeWs s (s.length + 2) (off + 1)
      let c ← at? s off
      if c == 125 then pure (.obj [], off + 1) else parseJ s f (depth + 1) (.objectLoop off [])
    else if c == 34 then do
      let (v, off) ← parseString s (s.length + 2) off []
      pure (.str v, off)
    else if c == 116 || c == 102 then
      if substrEq s off [116, 114, 117, 101] then pure (.bool true, off + 4)
      else if substrEq s off [102, 97, 108, 115, 101] then pure (.bool false, off + 5)
      else .error .runtime
    else if c == 110 then
      if substrEq s off [110, 117, 108, 108] then pure (.null, off + 4) else .error .runtime
    else if isDigit c || c == 45 then parseNumber s off
    else .error .runtime
  | f + 1, depth, .arrayLoop off acc =>
    -- `for (; offset < str.size();) { Array[index++] = parse_next(...); ... }`
    if off < s.length then do
      let (v, off) ← parseJ s f depth (.next off)
      let off ← consumeWs s (s.length + 2) off
      let c ← at? s off
      if c == 44 then parseJ s f depth (.arrayLoop (off + 1) (acc ++ [v]))
      else if c == 93 then pure (.arr (acc ++ [v]), off + 1)
      else .error .runtime
    else pure (.arr acc, off)
  | f + 1, depth, .objectLoop off acc =>
    if off < s.length then do
      let (k, off) ← parseJ s f depth (.next off)
      let off ← consumeWs s (s.length + 2) off
      let c ← at? s off
      if c != 58 then .error .runtime else
      let off ← consumeWs s (s.length + 2) (off + 1)
      let (v, off) ← parseJ s f depth (.next off)
      let acc := objSet acc k.toStr v
      let off ← consumeWs s (s.length + 2) off
      let c ← at? s off
      if c == 44 then parseJ s f depth (.objectLoop (off + 1) acc)
      else if c == 125 then pure (.obj acc, off + 1)
      else .error .runtime
    else pure (.obj acc, off)

/-- `JSON::Load` then `json_wrap::from_json`: out_of_range is reported as runtime_error. -/
def jsonLoad (s : List Nat) : JR J :=
  match parseJ s (4 * s.length + 8) 0 (.next 0) with
  | .ok (v, _) => .ok v
  | .error .outOfRange => .error .runtime
  | .error e => .error e

/-! ### dump -/

/-- Decimal digits of `n` (fuel ≥ number of digits; `n + 1` always suffices). -/
def decDigits : Nat → Nat → List Nat
  | 0, _ => []
  | f + 1, n => if n < 10 then [48 + n] else decDigits f (n / 10) ++ [48 + n % 10]

def natDigits (n : Nat) : List Nat := decDigits (n + 1) n
def intText (i : Int) : List Nat := if i < 0 then 45 :: natDigits i.natAbs else natDigits i.toNat

def pad (depth : Nat) : List Nat := List.replicate (2 * depth) 32

/-- `JSON::dump(depth)` with the default two-space tab. -/
def dumpJ : Nat → J → Nat → List Nat
  | 0, _, _ => []
  | _ + 1, .null, _ => [110, 117, 108, 108]
  | _ + 1, .bool b, _ => if b then [116, 114, 117, 101] else [102, 97, 108, 115, 101]
  | _ + 1, .int i, _ => intText i
  | _ + 1, .dbl _ _ _, _ => [68]
  | _ + 1, .str s, _ => [34] ++ jsonEscape s ++ [34]
  | f + 1, .arr xs, d =>
      [91] ++ (List.intercalate [44, 32] (xs.map (fun x => dumpJ f x (d + 1)))) ++ [93]
  | f + 1, .obj kvs, d =>
      [123, 10] ++ (List.intercalate [44, 10] (kvs.map (fun p => pad d ++ [34] ++ jsonEscape p.1 ++ [34, 32, 58, 32] ++ dumpJ f p.2 (d + 1))))
        ++ [10] ++ pad (d - 1) ++ [125]

/-- `from_json(JSON)` then `to_json_object`: objects become `std::map`s, i.e. key-sorted with the
    first occurrence of a key kept (QuickFlatMap is already duplicate-free). -/
def insertSorted (k : List Nat) (v : J) : List (List Nat × J) → List (List Nat × J)
  | [] => [(k, v)]
  | (k', v') :: rest => if k < k' then (k, v) :: (k', v') :: rest else if k == k' then (k', v') :: rest else (k', v') :: insertSorted k v rest

def normJ : Nat → J → J
  | 0, j => j
  | f + 1, .arr xs => .arr (xs.map (normJ f))
  | f + 1, .obj kvs => .obj (kvs.foldl (fun acc p => insertSorted p.1 (normJ f p.2) acc) [])
  | _ + 1, j => j

end ChaiVerif
