/-
M-PG: the recursion structure of the recursive-descent parser, as a call graph regenerated from chaiscript_parser.hpp on every run
(extract/e_parsegraph.py -> Gen/ParseGraph.lean).

A native call stack of the parser is a chain in this graph. `Depth_Counter` frames ("guarded" functions) are counted by
`m_current_parse_depth`, and the constructor throws when the count passes the limit; so the count of guarded frames on any stack is
bounded. What must also hold for the *native* stack to be bounded is that no cycle of the graph avoids the guarded functions: the
generated rank certificate says exactly that (rank strictly decreases along every edge between two unguarded functions).
-/
namespace ChaiVerif.PG

structure Graph where
  guarded : List Bool
  rank : List Nat
  edges : List (Nat × Nat)

namespace Graph
def g (G : Graph) (i : Nat) : Bool := G.guarded.getD i false
def r (G : Graph) (i : Nat) : Nat := G.rank.getD i 0

/-- the certificate condition on one call edge -/
def edgeOk (G : Graph) (e : Nat × Nat) : Bool := G.g e.1 || G.g e.2 || decide (G.r e.2 < G.r e.1)
/-- every cycle of the graph passes through a guarded function (witnessed by the ranks) -/
def ok (G : Graph) : Bool := G.edges.all G.edgeOk
def maxRank (G : Graph) : Nat := G.rank.foldl max 0

/-- a native call stack, outermost frame first: each frame was called by the one before it -/
def chain (G : Graph) : List Nat → Prop
  | [] => True
  | [_] => True
  | a :: b :: rest => (a, b) ∈ G.edges ∧ chain G (b :: rest)

/-- the value `m_current_parse_depth` has while this stack is live: one per `Depth_Counter` frame -/
def depth (G : Graph) (p : List Nat) : Nat := p.countP G.g
end Graph

end ChaiVerif.PG
