import ChaiVerif.Drv.Util
import ChaiVerif.Model.Chai.Eval
import ChaiVerif.Model.Chai.Opt
namespace ChaiVerif.Drv
open ChaiVerif ChaiVerif.Chai

/-! ### s-expressions -/
inductive Sx | atom (s : String) | list (xs : List Sx)
deriving Repr, Inhabited

partial def parseSx (toks : List String) : Option (Sx × List String) :=
  match toks with
  | [] => none
  | "(" :: rest =>
    let rec items (ts : List String) (acc : List Sx) : Option (List Sx × List String) :=
      match ts with
      | [] => none
      | ")" :: r => some (acc.reverse, r)
      | _ => match parseSx ts with
        | some (x, r) => items r (x :: acc)
        | none => none
    (items rest []).map (fun p => (Sx.list p.1, p.2))
  | ")" :: _ => none
  | a :: rest => some (.atom a, rest)

def tokenize (s : String) : List String :=
  let s1 := (s.replace "(" " ( ").replace ")" " ) "
  (s1.splitOn " ").filter (· ≠ "")

/-! ### building the model program from an s-expression -/
structure Build where
  heap : List Val := []
  funs : List FunDef := []
  nextNid : Nat := 0
deriving Inhabited

def nameId (s : String) : Nat := ((s.drop 1).toString.toNat?).getD 0        -- x12 / f3 -> 12 / 3 (functions offset below)
def funName (s : String) : Name := 1000 + nameId s
/-- `x12` is variable 12; `f3` names function 3 (a variable may be given a function's name: shadowing) -/
def varName (s : String) : Name := if s.startsWith "f" then funName s else nameId s

def binOf? : String → Option BinOp
  | "+" => some .add | "-" => some .sub | "*" => some .mul | "/" => some .div | "%" => some .mod | "<" => some .lt | "<=" => some .le
  | ">" => some .gt | ">=" => some .ge | "==" => some .eq | "!=" => some .ne | _ => none
def binStr : BinOp → String
  | .add => "+" | .sub => "-" | .mul => "*" | .div => "/" | .mod => "%" | .lt => "<" | .le => "<=" | .gt => ">" | .ge => ">=" | .eq => "==" | .ne => "!="
def preOf? : String → Option PreOp
  | "neg" => some .neg | "not" => some .not | "inc" => some .inc | "dec" => some .dec | _ => none
def eqOf? : String → Option EqOp
  | "=" => some .assign | ":=" => some .refAssign | "+=" => some .addAsg | "-=" => some .subAsg | "*=" => some .mulAsg | _ => none
def tyOf? : String → Option TyTag
  | "int" => some .int | "bool" => some .bool | "string" => some .string | "eval_error" => some .evalError | "exception" => some .exception_
  | "runtime_error" => some .runtimeError | "out_of_range" => some .outOfRange | "logic_error" => some .logicError | _ => none

/-- reserved cells at the start of every program's heap: builtins and native callbacks -/
def preludeCells : List Val :=
  [.builtin .print, .builtin .throw_, .builtin .isVarUndef, .native 0, .native 1, .native 2, .native 3]

/-- a parameter is `x1` or `(int x1)` -/
def paramNames (ps : List Sx) : List Name :=
  ps.filterMap (fun p => match p with
    | .atom x => some (varName x)
    | .list [.atom _, .atom x] => some (varName x)
    | _ => none)
def paramTypes (ps : List Sx) : List (Option TyTag) :=
  ps.map (fun p => match p with
    | .list [.atom t, .atom _] => tyOf? t
    | _ => none)

partial def buildNode (sx : Sx) (b : Build) : Option (Node × Build) :=
  let lit (v : Val) (b : Build) : Node × Build := (.const b.heap.length, { b with heap := b.heap ++ [v] })
  let rec many (xs : List Sx) (b : Build) (acc : List Node) : Option (List Node × Build) :=
    match xs with
    | [] => some (acc.reverse, b)
    | x :: r => match buildNode x b with
      | some (n, b1) => many r b1 (n :: acc)
      | none => none
  match sx with
  | .list [.atom "int", .atom v] =>
      -- a negative literal is spelled `(-5)`: the parser sees a prefix minus on the constant 5
      (parseInt? v).map (fun i => if i < 0 then (let (n, b1) := lit (.int (-i)) b; (.pre .neg n, b1)) else lit (.int i) b)
  | .list [.atom "bool", .atom v] => some (lit (.bool (v == "1")) b)
  | .list [.atom "str", .atom v] => some (lit (.str (v.toNat?.getD 0)) b)
  | .list [.atom "id", .atom x] => some (.id b.nextNid (varName x), { b with nextNid := b.nextNid + 1 })
  | .list [.atom "fid", .atom x] => some (.id b.nextNid (funName x), { b with nextNid := b.nextNid + 1 })
  | .list [.atom "var", .atom x] => some (.varDecl (varName x), b)
  | .list [.atom "ref", .atom x] => some (.refDecl (varName x), b)
  | .list [.atom "decl", .atom x, e] => (buildNode e b).map (fun p => (.eq .assign (.varDecl (varName x)) p.1, p.2))
  | .list [.atom "eq", .atom op, l, r] => do
      let o ← eqOf? op; let (ln, b1) ← buildNode l b; let (rn, b2) ← buildNode r b1; pure (.eq o ln rn, b2)
  | .list [.atom "bin", .atom op, l, r] => do
      let o ← binOf? op; let (ln, b1) ← buildNode l b; let (rn, b2) ← buildNode r b1; pure (.bin o ln rn, b2)
  | .list [.atom "pre", .atom op, a] => do let o ← preOf? op; let (an, b1) ← buildNode a b; pure (.pre o an, b1)
  | .list [.atom "and", l, r] => do let (ln, b1) ← buildNode l b; let (rn, b2) ← buildNode r b1; pure (.and ln rn, b2)
  | .list [.atom "or", l, r] => do let (ln, b1) ← buildNode l b; let (rn, b2) ← buildNode r b1; pure (.or ln rn, b2)
  | .list [.atom "block"] => some (.block [.noop], b)               -- `{ }` parses as a block holding one Noop
  | .list (.atom "block" :: xs) => (many xs b []).map (fun p => (.block p.1, p.2))
  | .list [.atom "if", c, t, e] => do
      let (cn, b1) ← buildNode c b; let (tn, b2) ← buildNode t b1; let (en, b3) ← buildNode e b2; pure (.ifN cn tn en, b3)
  | .list [.atom "if", c, t] => do
      let (cn, b1) ← buildNode c b; let (tn, b2) ← buildNode t b1; pure (.ifN cn tn .noop, b2)
  | .list [.atom "while", c, bd] => do let (cn, b1) ← buildNode c b; let (bn, b2) ← buildNode bd b1; pure (.whileN cn bn, b2)
  | .list [.atom "for", i, c, st, bd] => do
      let (i', b1) ← buildNode i b; let (c', b2) ← buildNode c b1; let (s', b3) ← buildNode st b2; let (b', b4) ← buildNode bd b3
      pure (.forN i' c' s' b', b4)
  | .list [.atom "break"] => some (.brk, b)
  | .list [.atom "continue"] => some (.cont, b)
  | .list [.atom "return"] => some (.ret none, b)
  | .list [.atom "return", e] => (buildNode e b).map (fun p => (.ret (some p.1), p.2))
  | .list (.atom "call" :: fe :: args) => do
      let (fn, b1) ← buildNode fe b; let (as, b2) ← many args b1 []; pure (.call false fn as, b2)
  | .list (.atom "print" :: args) => (many args b []).map (fun p => (.call false (.const 0) p.1, p.2))
  | .list (.atom "throw" :: args) => (many args b []).map (fun p => (.call false (.const 1) p.1, p.2))
  | .list (.atom "undef?" :: args) => (many args b []).map (fun p => (.call false (.const 2) p.1, p.2))
  | .list (.atom "cb" :: .atom k :: args) => (many args b []).map (fun p => (.call false (.const (3 + (k.toNat?.getD 0))) p.1, p.2))
  | .list [.atom "lambda", .list caps, .list params, body] => do
      let (bn, b1) ← buildNode body b
      let fid := b1.funs.length
      let ps := params.filterMap (fun p => match p with | .atom x => some (varName x) | _ => none)
      let cs := caps.filterMap (fun p => match p with | .atom x => some (varName x) | _ => none)
      let nid0 := b1.nextNid
      pure (.lambda fid ((List.range cs.length).zip cs |>.map (fun p => (nid0 + p.1, p.2))),
            { b1 with funs := b1.funs ++ [{ params := ps, body := bn }], nextNid := nid0 + cs.length })
  | .list [.atom "def", .atom fname, .list params, body] => do
      let (bn, b1) ← buildNode body b
      let fid := b1.funs.length
      pure (.def_ (funName fname) fid, { b1 with funs := b1.funs ++ [{ params := paramNames params, body := bn, ptys := paramTypes params }] })
  | .list [.atom "defg", .atom fname, .list params, guard, body] => do
      let (gn, b0) ← buildNode guard b
      let (bn, b1) ← buildNode body b0
      let fid := b1.funs.length
      pure (.def_ (funName fname) fid, { b1 with funs := b1.funs ++ [{ params := paramNames params, body := bn, guard := some gn, ptys := paramTypes params }] })
  | .list (.atom "try" :: body :: clauses) => do
      let (bn, b1) ← buildNode body b
      let rec cls (xs : List Sx) (b : Build) (acc : List (Option (Name × Option TyTag) × Node)) (fin : Option Node) :
          Option (List (Option (Name × Option TyTag) × Node) × Option Node × Build) :=
        match xs with
        | [] => some (acc.reverse, fin, b)
        | .list [.atom "catch", blk] :: r => (buildNode blk b).bind (fun p => cls r p.2 ((none, p.1) :: acc) fin)
        | .list [.atom "catch", .atom x, blk] :: r => (buildNode blk b).bind (fun p => cls r p.2 ((some (varName x, none), p.1) :: acc) fin)
        | .list [.atom "catch", .atom x, .atom ty, blk] :: r =>
            (buildNode blk b).bind (fun p => cls r p.2 ((some (varName x, tyOf? ty), p.1) :: acc) fin)
        | .list [.atom "finally", blk] :: r => (buildNode blk b).bind (fun p => cls r p.2 acc (some p.1))
        | _ => none
      let (cs, fin, b2) ← cls clauses b1 [] none
      pure (.tryN bn cs fin, b2)
  | .list (.atom "vec" :: xs) => (many xs b []).map (fun p => (.inlineVec p.1, p.2))
  | .list [.atom "index", a, i] => do let (an, b1) ← buildNode a b; let (inn, b2) ← buildNode i b1; pure (.index an inn, b2)
  | .list [.atom "evalstr", inner] => do
      let nid0 := b.nextNid
      let (n, b1) ← buildNode inner b
      pure (.evalStr ((List.range (b1.nextNid - nid0)).map (· + nid0)) n, b1)
  | .list [.atom "noop"] => some (.noop, b)
  | _ => none

/-! ### printing ChaiScript source (the text the real engine evaluates) -/
def printParams (xs : List Sx) : String :=
  ", ".intercalate (xs.filterMap (fun p => match p with
    | .atom x => some x
    | .list [.atom t, .atom x] => some s!"{t} {x}"
    | _ => none))

partial def printSx (sx : Sx) : String :=
  let ps := printSx
  let blockBody (xs : List Sx) : String := "{ " ++ "; ".intercalate (xs.map ps) ++ " }"
  match sx with
  | .list [.atom "int", .atom v] => if v.startsWith "-" then s!"({v})" else v
  | .list [.atom "bool", .atom v] => if v == "1" then "true" else "false"
  | .list [.atom "str", .atom v] => s!"\"s{v}\""
  | .list [.atom "id", .atom x] => x
  | .list [.atom "fid", .atom x] => x
  | .list [.atom "var", .atom x] => s!"var {x}"
  | .list [.atom "ref", .atom x] => s!"var &{x}"
  | .list [.atom "decl", .atom x, e] => s!"var {x} = {ps e}"
  | .list [.atom "eq", .atom op, l, r] => s!"{ps l} {op} {ps r}"
  | .list [.atom "bin", .atom op, l, r] => s!"({ps l} {op} {ps r})"
  | .list [.atom "pre", .atom op, a] =>
      (match op with | "neg" => s!"(-{ps a})" | "not" => s!"(!{ps a})" | "inc" => s!"(++{ps a})" | _ => s!"(--{ps a})")
  | .list [.atom "and", l, r] => s!"({ps l} && {ps r})"
  | .list [.atom "or", l, r] => s!"({ps l} || {ps r})"
  | .list (.atom "block" :: xs) => blockBody xs
  | .list [.atom "if", c, t, e] => s!"if ({ps c}) {ps t} else {ps e}"
  | .list [.atom "if", c, t] => s!"if ({ps c}) {ps t}"
  | .list [.atom "while", c, bd] => s!"while ({ps c}) {ps bd}"
  | .list [.atom "for", i, c, st, bd] => s!"for ({ps i}; {ps c}; {ps st}) {ps bd}"
  | .list [.atom "break"] => "break"
  | .list [.atom "continue"] => "continue"
  | .list [.atom "return"] => "return"
  | .list [.atom "return", e] => s!"return {ps e}"
  | .list (.atom "call" :: fe :: args) => s!"{ps fe}(" ++ ", ".intercalate (args.map ps) ++ ")"
  | .list (.atom "print" :: args) => "pr(" ++ ", ".intercalate (args.map ps) ++ ")"
  | .list (.atom "throw" :: args) => "throw(" ++ ", ".intercalate (args.map ps) ++ ")"
  | .list (.atom "undef?" :: args) => "is_var_undef(" ++ ", ".intercalate (args.map ps) ++ ")"
  | .list (.atom "cb" :: .atom k :: args) => s!"cb{k}(" ++ ", ".intercalate (args.map ps) ++ ")"
  | .list [.atom "lambda", .list caps, .list params, body] =>
      let names (xs : List Sx) := ", ".intercalate (xs.filterMap (fun p => match p with | .atom x => some x | _ => none))
      "fun" ++ (if caps.isEmpty then "" else s!"[{names caps}]") ++ s!"({names params}) {ps body}"
  | .list [.atom "def", .atom fname, .list params, body] => s!"def {fname}({printParams params}) {ps body}"
  | .list [.atom "defg", .atom fname, .list params, guard, body] => s!"def {fname}({printParams params}) : {ps guard} {ps body}"
  | .list (.atom "try" :: body :: clauses) =>
      s!"try {ps body}" ++ String.join (clauses.map (fun c => match c with
        | .list [.atom "catch", blk] => s!" catch {ps blk}"
        | .list [.atom "catch", .atom x, blk] => s!" catch({x}) {ps blk}"
        | .list [.atom "catch", .atom x, .atom ty, blk] => s!" catch({ty} {x}) {ps blk}"
        | .list [.atom "finally", blk] => s!" finally {ps blk}"
        | _ => " ??"))
  | .list (.atom "vec" :: xs) => "[" ++ ", ".intercalate (xs.map ps) ++ "]"
  | .list [.atom "index", a, i] => s!"{ps a}[{ps i}]"
  | .list [.atom "evalstr", inner] => s!"eval(\"{ps inner}\")"
  | .list [.atom "noop"] => ""
  | _ => "??"

/-! ### printing the model's syntax tree in the normal form of harness/optree.cpp -/
def nameStr (x : Name) : String :=
  if x < 1000 then s!"x{x}" else if x < 2000 then s!"f{x - 1000}"
  else match x with | 2000 => "pr" | 2001 => "throw" | 2002 => "is_var_undef" | _ => s!"cb{x - 2100}"

def builtinName (l : Loc) : String :=
  match l with | 0 => "pr" | 1 => "throw" | 2 => "is_var_undef" | _ => s!"cb{l - 3}"

def litStr (L : Lits) (l : Loc) : String :=
  match litOf L l with
  | .int i => s!"(int {i})" | .bool b => if b then "(bool 1)" else "(bool 0)" | .str k => s!"(str {k})"
  | .builtin _ => s!"(id {builtinName l})" | .native _ => s!"(id {builtinName l})"
  | _ => "(const?)"

def tyStr : TyTag → String
  | .int => "int" | .bool => "bool" | .string => "string" | .evalError => "eval_error" | .exception_ => "exception"
  | .runtimeError => "runtime_error" | .outOfRange => "out_of_range" | .logicError => "logic_error"

def eqStr : EqOp → String
  | .assign => "=" | .refAssign => ":=" | .addAsg => "+=" | .subAsg => "-=" | .mulAsg => "*="
def preStr : PreOp → String
  | .neg => "neg" | .not => "not" | .inc => "inc" | .dec => "dec"

partial def showNode (L : Lits) (ρ : List FunDef) (n : Node) : String :=
  let sn := showNode L ρ
  let many (xs : List Node) : String := String.join (xs.map (fun x => " " ++ sn x))
  let names (xs : List Name) : String := "(" ++ " ".intercalate (xs.map nameStr) ++ ")"
  match n with
  | .const l => litStr L l
  | .id _ x => s!"(id {nameStr x})"
  | .varDecl x => s!"(var {nameStr x})"
  | .refDecl x => s!"(ref {nameStr x})"
  | .assignDecl x e => s!"(decl {nameStr x} {sn e})"
  | .eq op l r => s!"(eq {eqStr op} {sn l} {sn r})"
  | .bin op a b => s!"(bin {binStr op} {sn a} {sn b})"
  | .foldR op a c => s!"(foldr {binStr op} {sn a} {litStr L c})"
  | .pre op a => s!"(pre {preStr op} {sn a})"
  | .and a b => s!"(and {sn a} {sn b})"
  | .or a b => s!"(or {sn a} {sn b})"
  | .block xs => "(block" ++ many xs ++ ")"
  | .scopeless xs => "(scopeless" ++ many xs ++ ")"
  | .ifN c t e => s!"(if {sn c} {sn t} {sn e})"
  | .whileN c b => s!"(while {sn c} {sn b})"
  | .forN i c s b => s!"(for {sn i} {sn c} {sn s} {sn b})"
  | .cfor x lo hi b => s!"(cfor {nameStr x} (int {lo}) (int {hi}) {sn b})"
  | .brk => "(break)" | .cont => "(continue)"
  | .ret none => "(return)"
  | .ret (some e) => s!"(return {sn e})"
  | .call u f as => (if u then "(ucall " else "(call ") ++ sn f ++ many as ++ ")"
  | .lambda fid caps =>
      (match ρ[fid]? with
       | some fd => s!"(lambda {names (caps.map (·.2))} {names fd.params} {sn fd.body})"
       | none => "(lambda?)")
  | .def_ name fid =>
      (match ρ[fid]? with
       | some fd =>
          let ps := "(" ++ " ".intercalate ((List.range fd.params.length).map (fun i =>
            match fd.ptys.getD i none with
            | some t => s!"({tyStr t} {nameStr (fd.params.getD i 0)})"
            | none => nameStr (fd.params.getD i 0))) ++ ")"
          (match fd.guard with
           | some g => s!"(defg {nameStr name} {ps} {sn g} {sn fd.body})"
           | none => s!"(def {nameStr name} {ps} {sn fd.body})")
       | none => "(def?)")
  | .tryN b cs fin =>
      "(try " ++ sn b ++ String.join (cs.map (fun c => match c with
        | (none, blk) => s!" (catch {sn blk})"
        | (some (x, none), blk) => s!" (catch {nameStr x} {sn blk})"
        | (some (x, some ty), blk) => s!" (catch {nameStr x} {tyStr ty} {sn blk})"))
      ++ (match fin with | none => "" | some fb => s!" (finally {sn fb})") ++ ")"
  | .inlineVec xs => "(vec" ++ many xs ++ ")"
  | .index a i => s!"(index {sn a} {sn i})"
  | .evalStr _ _ => "(call (id eval) (str ?))"
  | .noop => "(noop)"

/-! ### running -/
def showChaiVal (s : St) : Nat → Val → String
  | _, .undef => "undef" | _, .void => "void" | _, .int i => s!"i{i}" | _, .bool b => if b then "b1" else "b0" | _, .str k => s!"s{k}"
  | _, .fn _ _ => "fn" | _, .fobj _ => "fn" | _, .native _ => "fn" | _, .builtin _ => "fn" | _, .exc _ => "exc"
  | 0, .vec _ => "vec"
  | d + 1, .vec ls => "[" ++ ",".intercalate (ls.map (fun l => showChaiVal s d (s.val l))) ++ "]"

def showChaiOut (s : St) : Out → String
  | .val l => "val " ++ showChaiVal s 3 (s.val l)
  | .ret l => "val " ++ showChaiVal s 3 (s.val l)          -- top-level `return` is caught by do_eval
  | .brk => "err break-outside-loop" | .cont => "err continue-outside-loop"
  | .thrown (.evalErr w) => "err eval_error " ++ ((reprStr w).splitOn ".").getLast!
  | .thrown (.boxed l) => "thrown " ++ showChaiVal s 3 (s.val l)
  | .thrown (.cpp k) => "cpp " ++ ((reprStr k).splitOn ".").getLast!
  | .vals _ => "?" | .noMatch => "?" | .oof => "oof"

structure RunCfg where
  fuel : Nat := 4000
  faultAt : Nat := 1000000
  faultKind : ExcKind := .stdException
  faultBoxed : Bool := false
  useHints : Bool := true

def excKindOfStr : String → ExcKind
  | "runtime" => .runtimeError | "range" => .outOfRange | "std" => .stdException | "nonstd" => .nonStd | "eval" => .evalError
  | _ => .stdException

def globalsFor : List (Name × Loc) := [(2000, 0), (2001, 1), (2002, 2), (2100, 3), (2101, 4), (2102, 5), (2103, 6)]

def buildProgram (stmts : List Sx) : Option (List Node × Build) :=
  let b0 : Build := { heap := preludeCells }
  let rec build (xs : List Sx) (b : Build) (acc : List Node) : Option (List Node × Build) :=
    match xs with
    | [] => some (acc.reverse, b)
    | x :: r => match buildNode x b with
      | some (n, b1) => build r b1 (n :: acc)
      | none => none
  build stmts b0 []

/-- line: `run <faultAt> <faultKind> <flags> <sexp...>` (a sequence of top-level statements; flags: `1`/`0` = lookup hints on/off,
    a trailing `n` = optimizer off), `tree <sexp...>` (both syntax trees) or `print <sexp...>` -/
def chaiLine (line : String) : String :=
  let toks := tokenize line
  match toks with
  | "print" :: rest =>
      (match parseSx rest with
       | some (.list stmts, _) => ";\n".intercalate (stmts.map printSx)
       | _ => "bad-sexp")
  | "tree" :: rest =>
      (match parseSx rest with
       | some (.list stmts, _) =>
          (match buildProgram stmts with
           | some (prog, b) =>
              let (prog', funs', L') := optimizeProgram b.heap prog b.funs
              let sh (L : Lits) (ρ : List FunDef) (p : List Node) : String := "(file" ++ String.join (p.map (fun x => " " ++ showNode L ρ x)) ++ ")"
              s!"opt={sh L' funs' prog'}\tnoopt={sh b.heap b.funs prog}"
           | none => "bad-build")
       | _ => "bad-sexp")
  | "run" :: fa :: fk :: flags :: rest =>
      (match parseSx rest with
       | some (.list stmts, _) =>
          (match buildProgram stmts with
           | some (prog0, b0) =>
              let noopt := flags.endsWith "n"
              let hints := flags.startsWith "1"
              let (prog, funs, heap) := if noopt then (prog0, b0.funs, b0.heap) else optimizeProgram b0.heap prog0 b0.funs
              let b : Build := { b0 with funs := funs, heap := heap }
              let kind : ExcKind := excKindOfStr fk
              let s0 : St := { St.init b.heap with fault := ⟨fa.toNat?.getD 1000000, kind, fk == "boxed"⟩, useHints := hints }
              let r := run b.funs 5000 (.seq prog) s0
              let names := ",".intercalate (((r.2.stacks.head?.bind List.head?).getD []).map (fun p => s!"x{p.1}"))
              let outs := ",".intercalate (r.2.out.map (showChaiVal r.2 3))
              let nat := ",".intercalate (r.2.natLog.map (fun p => s!"{p.1}:" ++ "/".intercalate (p.2.map (showChaiVal r.2 3))))
              let sh := r.2.shape
              let tg := if r.2.tags.isEmpty then "" else " tags=" ++ ",".intercalate (r.2.tags.eraseDups.map toString)
              let lt := if r.2.objs.take b.heap.length == b.heap then "" else " lits=CHANGED"
              s!"res={showChaiOut r.2 r.1} out={outs} nat={nat} shape={sh.1}/{sh.2.1}/{sh.2.2} names={names}{tg}{lt}"
           | none => "bad-build")
       | _ => "bad-sexp")
  | _ => "bad-op"

end ChaiVerif.Drv
