import ChaiVerif.Drv.Util
import ChaiVerif.Model.Chai.Eval
namespace ChaiVerif.Drv
open ChaiVerif ChaiVerif.Chai

/-! ### s-expressions -/
inductive Sx | atom (s : String) | list (xs : List Sx)
deriving Repr, Inhabited

partial def parseSx (toks : List String) : Option (Sx × List String) :=
  match toks with
  | [] => none
  | "(" :: rest =>
    let rec items (ts : List String) (acc : List Sx) : Option (List Sx × List String) :=
      match ts with
      | [] => none
      | ")" :: r => some (acc.reverse, r)
      | _ => match parseSx ts with
        | some (x, r) => items r (x :: acc)
        | none => none
    (items rest []).map (fun p => (Sx.list p.1, p.2))
  | ")" :: _ => none
  | a :: rest => some (.atom a, rest)

def tokenize (s : String) : List String :=
  let s1 := (s.replace "(" " ( ").replace ")" " ) "
  (s1.splitOn " ").filter (· ≠ "")

/-! ### building the model program from an s-expression -/
structure Build where
  heap : List Val := []
  funs : List FunDef := []
  nextNid : Nat := 0
deriving Inhabited

def nameId (s : String) : Nat := ((s.drop 1).toString.toNat?).getD 0        -- x12 / f3 -> 12 / 3 (functions offset below)
def varName (s : String) : Name := nameId s
def funName (s : String) : Name := 1000 + nameId s

def binOf? : String → Option BinOp
  | "+" => some .add | "-" => some .sub | "*" => some .mul | "/" => some .div | "%" => some .mod | "<" => some .lt | "<=" => some .le
  | ">" => some .gt | ">=" => some .ge | "==" => some .eq | "!=" => some .ne | _ => none
def binStr : BinOp → String
  | .add => "+" | .sub => "-" | .mul => "*" | .div => "/" | .mod => "%" | .lt => "<" | .le => "<=" | .gt => ">" | .ge => ">=" | .eq => "==" | .ne => "!="
def preOf? : String → Option PreOp
  | "neg" => some .neg | "not" => some .not | "inc" => some .inc | "dec" => some .dec | _ => none
def eqOf? : String → Option EqOp
  | "=" => some .assign | ":=" => some .refAssign | "+=" => some .addAsg | "-=" => some .subAsg | "*=" => some .mulAsg | _ => none
def tyOf? : String → Option TyTag
  | "int" => some .int | "bool" => some .bool | "string" => some .string | "eval_error" => some .evalError | _ => none

/-- reserved cells at the start of every program's heap: builtins and native callbacks -/
def preludeCells : List Val :=
  [.builtin .print, .builtin .throw_, .builtin .isVarUndef, .native 0, .native 1, .native 2, .native 3]

partial def buildNode (sx : Sx) (b : Build) : Option (Node × Build) :=
  let lit (v : Val) (b : Build) : Node × Build := (.const b.heap.length, { b with heap := b.heap ++ [v] })
  let rec many (xs : List Sx) (b : Build) (acc : List Node) : Option (List Node × Build) :=
    match xs with
    | [] => some (acc.reverse, b)
    | x :: r => match buildNode x b with
      | some (n, b1) => many r b1 (n :: acc)
      | none => none
  match sx with
  | .list [.atom "int", .atom v] => (parseInt? v).map (fun i => lit (.int i) b)
  | .list [.atom "bool", .atom v] => some (lit (.bool (v == "1")) b)
  | .list [.atom "str", .atom v] => some (lit (.str (v.toNat?.getD 0)) b)
  | .list [.atom "id", .atom x] => some (.id b.nextNid (varName x), { b with nextNid := b.nextNid + 1 })
  | .list [.atom "fid", .atom x] => some (.id b.nextNid (funName x), { b with nextNid := b.nextNid + 1 })
  | .list [.atom "var", .atom x] => some (.varDecl (varName x), b)
  | .list [.atom "ref", .atom x] => some (.refDecl (varName x), b)
  | .list [.atom "decl", .atom x, e] => (buildNode e b).map (fun p => (.assignDecl (varName x) p.1, p.2))
  | .list [.atom "eq", .atom op, l, r] => do
      let o ← eqOf? op; let (ln, b1) ← buildNode l b; let (rn, b2) ← buildNode r b1; pure (.eq o ln rn, b2)
  | .list [.atom "bin", .atom op, l, r] => do
      let o ← binOf? op; let (ln, b1) ← buildNode l b; let (rn, b2) ← buildNode r b1; pure (.bin o ln rn, b2)
  | .list [.atom "pre", .atom op, a] => do let o ← preOf? op; let (an, b1) ← buildNode a b; pure (.pre o an, b1)
  | .list [.atom "and", l, r] => do let (ln, b1) ← buildNode l b; let (rn, b2) ← buildNode r b1; pure (.and ln rn, b2)
  | .list [.atom "or", l, r] => do let (ln, b1) ← buildNode l b; let (rn, b2) ← buildNode r b1; pure (.or ln rn, b2)
  | .list (.atom "block" :: xs) => (many xs b []).map (fun p => (.block p.1, p.2))
  | .list [.atom "if", c, t, e] => do
      let (cn, b1) ← buildNode c b; let (tn, b2) ← buildNode t b1; let (en, b3) ← buildNode e b2; pure (.ifN cn tn en, b3)
  | .list [.atom "if", c, t] => do
      let (cn, b1) ← buildNode c b; let (tn, b2) ← buildNode t b1; pure (.ifN cn tn .noop, b2)
  | .list [.atom "while", c, bd] => do let (cn, b1) ← buildNode c b; let (bn, b2) ← buildNode bd b1; pure (.whileN cn bn, b2)
  | .list [.atom "for", i, c, st, bd] => do
      let (i', b1) ← buildNode i b; let (c', b2) ← buildNode c b1; let (s', b3) ← buildNode st b2; let (b', b4) ← buildNode bd b3
      pure (.forN i' c' s' b', b4)
  | .list [.atom "break"] => some (.brk, b)
  | .list [.atom "continue"] => some (.cont, b)
  | .list [.atom "return"] => some (.ret none, b)
  | .list [.atom "return", e] => (buildNode e b).map (fun p => (.ret (some p.1), p.2))
  | .list (.atom "call" :: fe :: args) => do
      let (fn, b1) ← buildNode fe b; let (as, b2) ← many args b1 []; pure (.call false fn as, b2)
  | .list (.atom "print" :: args) => (many args b []).map (fun p => (.call false (.const 0) p.1, p.2))
  | .list (.atom "throw" :: args) => (many args b []).map (fun p => (.call false (.const 1) p.1, p.2))
  | .list (.atom "undef?" :: args) => (many args b []).map (fun p => (.call false (.const 2) p.1, p.2))
  | .list (.atom "cb" :: .atom k :: args) => (many args b []).map (fun p => (.call false (.const (3 + (k.toNat?.getD 0))) p.1, p.2))
  | .list [.atom "lambda", .list caps, .list params, body] => do
      let (bn, b1) ← buildNode body b
      let fid := b1.funs.length
      let ps := params.filterMap (fun p => match p with | .atom x => some (varName x) | _ => none)
      let cs := caps.filterMap (fun p => match p with | .atom x => some (varName x) | _ => none)
      let nid0 := b1.nextNid
      pure (.lambda fid ((List.range cs.length).zip cs |>.map (fun p => (nid0 + p.1, p.2))),
            { b1 with funs := b1.funs ++ [⟨ps, bn, none⟩], nextNid := nid0 + cs.length })
  | .list [.atom "def", .atom fname, .list params, body] => do
      let (bn, b1) ← buildNode body b
      let fid := b1.funs.length
      let ps := params.filterMap (fun p => match p with | .atom x => some (varName x) | _ => none)
      pure (.def_ (funName fname) fid, { b1 with funs := b1.funs ++ [⟨ps, bn, none⟩] })
  | .list (.atom "try" :: body :: clauses) => do
      let (bn, b1) ← buildNode body b
      let rec cls (xs : List Sx) (b : Build) (acc : List (Option (Name × Option TyTag) × Node)) (fin : Option Node) :
          Option (List (Option (Name × Option TyTag) × Node) × Option Node × Build) :=
        match xs with
        | [] => some (acc.reverse, fin, b)
        | .list [.atom "catch", blk] :: r => (buildNode blk b).bind (fun p => cls r p.2 ((none, p.1) :: acc) fin)
        | .list [.atom "catch", .atom x, blk] :: r => (buildNode blk b).bind (fun p => cls r p.2 ((some (varName x, none), p.1) :: acc) fin)
        | .list [.atom "catch", .atom x, .atom ty, blk] :: r =>
            (buildNode blk b).bind (fun p => cls r p.2 ((some (varName x, tyOf? ty), p.1) :: acc) fin)
        | .list [.atom "finally", blk] :: r => (buildNode blk b).bind (fun p => cls r p.2 acc (some p.1))
        | _ => none
      let (cs, fin, b2) ← cls clauses b1 [] none
      pure (.tryN bn cs fin, b2)
  | .list (.atom "vec" :: xs) => (many xs b []).map (fun p => (.inlineVec p.1, p.2))
  | .list [.atom "index", a, i] => do let (an, b1) ← buildNode a b; let (inn, b2) ← buildNode i b1; pure (.index an inn, b2)
  | .list [.atom "noop"] => some (.noop, b)
  | _ => none

/-! ### printing ChaiScript source (the text the real engine evaluates) -/
partial def printSx (sx : Sx) : String :=
  let ps := printSx
  let blockBody (xs : List Sx) : String := "{ " ++ "; ".intercalate (xs.map ps) ++ " }"
  match sx with
  | .list [.atom "int", .atom v] => if v.startsWith "-" then s!"({v})" else v
  | .list [.atom "bool", .atom v] => if v == "1" then "true" else "false"
  | .list [.atom "str", .atom v] => s!"\"s{v}\""
  | .list [.atom "id", .atom x] => x
  | .list [.atom "fid", .atom x] => x
  | .list [.atom "var", .atom x] => s!"var {x}"
  | .list [.atom "ref", .atom x] => s!"var &{x}"
  | .list [.atom "decl", .atom x, e] => s!"var {x} = {ps e}"
  | .list [.atom "eq", .atom op, l, r] => s!"{ps l} {op} {ps r}"
  | .list [.atom "bin", .atom op, l, r] => s!"({ps l} {op} {ps r})"
  | .list [.atom "pre", .atom op, a] =>
      (match op with | "neg" => s!"(-{ps a})" | "not" => s!"(!{ps a})" | "inc" => s!"(++{ps a})" | _ => s!"(--{ps a})")
  | .list [.atom "and", l, r] => s!"({ps l} && {ps r})"
  | .list [.atom "or", l, r] => s!"({ps l} || {ps r})"
  | .list (.atom "block" :: xs) => blockBody xs
  | .list [.atom "if", c, t, e] => s!"if ({ps c}) {ps t} else {ps e}"
  | .list [.atom "if", c, t] => s!"if ({ps c}) {ps t}"
  | .list [.atom "while", c, bd] => s!"while ({ps c}) {ps bd}"
  | .list [.atom "for", i, c, st, bd] => s!"for ({ps i}; {ps c}; {ps st}) {ps bd}"
  | .list [.atom "break"] => "break"
  | .list [.atom "continue"] => "continue"
  | .list [.atom "return"] => "return"
  | .list [.atom "return", e] => s!"return {ps e}"
  | .list (.atom "call" :: fe :: args) => s!"{ps fe}(" ++ ", ".intercalate (args.map ps) ++ ")"
  | .list (.atom "print" :: args) => "pr(" ++ ", ".intercalate (args.map ps) ++ ")"
  | .list (.atom "throw" :: args) => "throw(" ++ ", ".intercalate (args.map ps) ++ ")"
  | .list (.atom "undef?" :: args) => "is_var_undef(" ++ ", ".intercalate (args.map ps) ++ ")"
  | .list (.atom "cb" :: .atom k :: args) => s!"cb{k}(" ++ ", ".intercalate (args.map ps) ++ ")"
  | .list [.atom "lambda", .list caps, .list params, body] =>
      let names (xs : List Sx) := ", ".intercalate (xs.filterMap (fun p => match p with | .atom x => some x | _ => none))
      "fun" ++ (if caps.isEmpty then "" else s!"[{names caps}]") ++ s!"({names params}) {ps body}"
  | .list [.atom "def", .atom fname, .list params, body] =>
      let names (xs : List Sx) := ", ".intercalate (xs.filterMap (fun p => match p with | .atom x => some x | _ => none))
      s!"def {fname}({names params}) {ps body}"
  | .list (.atom "try" :: body :: clauses) =>
      s!"try {ps body}" ++ String.join (clauses.map (fun c => match c with
        | .list [.atom "catch", blk] => s!" catch {ps blk}"
        | .list [.atom "catch", .atom x, blk] => s!" catch({x}) {ps blk}"
        | .list [.atom "catch", .atom x, .atom ty, blk] => s!" catch({ty} {x}) {ps blk}"
        | .list [.atom "finally", blk] => s!" finally {ps blk}"
        | _ => " ??"))
  | .list (.atom "vec" :: xs) => "[" ++ ", ".intercalate (xs.map ps) ++ "]"
  | .list [.atom "index", a, i] => s!"{ps a}[{ps i}]"
  | .list [.atom "noop"] => ""
  | _ => "??"

/-! ### running -/
def showChaiVal (s : St) : Nat → Val → String
  | _, .undef => "undef" | _, .void => "void" | _, .int i => s!"i{i}" | _, .bool b => if b then "b1" else "b0" | _, .str k => s!"s{k}"
  | _, .fn _ _ => "fn" | _, .fobj _ => "fn" | _, .native _ => "fn" | _, .builtin _ => "fn" | _, .exc _ => "exc"
  | 0, .vec _ => "vec"
  | d + 1, .vec ls => "[" ++ ",".intercalate (ls.map (fun l => showChaiVal s d (s.val l))) ++ "]"

def showChaiOut (s : St) : Out → String
  | .val l => "val " ++ showChaiVal s 3 (s.val l)
  | .ret l => "val " ++ showChaiVal s 3 (s.val l)          -- top-level `return` is caught by do_eval
  | .brk => "err break-outside-loop" | .cont => "err continue-outside-loop"
  | .thrown (.evalErr w) => "err eval_error " ++ ((reprStr w).splitOn ".").getLast!
  | .thrown (.boxed l) => "thrown " ++ showChaiVal s 3 (s.val l)
  | .thrown (.cpp k) => "cpp " ++ ((reprStr k).splitOn ".").getLast!
  | .vals _ => "?" | .noMatch => "?" | .oof => "oof"

structure RunCfg where
  fuel : Nat := 4000
  faultAt : Nat := 1000000
  faultKind : ExcKind := .stdException
  faultBoxed : Bool := false
  useHints : Bool := true

def excKindOfStr : String → ExcKind
  | "runtime" => .runtimeError | "range" => .outOfRange | "std" => .stdException | "nonstd" => .nonStd | "eval" => .evalError
  | _ => .stdException

def globalsFor : List (Name × Loc) := [(2000, 0), (2001, 1), (2002, 2), (2100, 3), (2101, 4), (2102, 5), (2103, 6)]

/-- line: `run <faultAt> <faultKind> <hints 0/1> <sexp...>` (a sequence of top-level statements) or `print <sexp...>` -/
def chaiLine (line : String) : String :=
  let toks := tokenize line
  match toks with
  | "print" :: rest =>
      (match parseSx rest with
       | some (.list stmts, _) => ";\n".intercalate (stmts.map printSx)
       | _ => "bad-sexp")
  | "run" :: fa :: fk :: hints :: rest =>
      (match parseSx rest with
       | some (.list stmts, _) =>
          let b0 : Build := { heap := preludeCells }
          let rec build (xs : List Sx) (b : Build) (acc : List Node) : Option (List Node × Build) :=
            match xs with
            | [] => some (acc.reverse, b)
            | x :: r => match buildNode x b with
              | some (n, b1) => build r b1 (n :: acc)
              | none => none
          (match build stmts b0 [] with
           | some (prog, b) =>
              let kind : ExcKind := excKindOfStr fk
              let s0 : St := { St.init b.heap with fault := ⟨fa.toNat?.getD 1000000, kind, fk == "boxed"⟩, useHints := hints == "1" }
              let r := run b.funs 5000 (.seq prog) s0
              let names := ",".intercalate (((r.2.stacks.head?.bind List.head?).getD []).map (fun p => s!"x{p.1}"))
              let outs := ",".intercalate (r.2.out.map (showChaiVal r.2 3))
              let nat := ",".intercalate (r.2.natLog.map (fun p => s!"{p.1}:" ++ "/".intercalate (p.2.map (showChaiVal r.2 3))))
              let sh := r.2.shape
              let tg := if r.2.tags.isEmpty then "" else " tags=" ++ ",".intercalate (r.2.tags.eraseDups.map toString)
              s!"res={showChaiOut r.2 r.1} out={outs} nat={nat} shape={sh.1}/{sh.2.1}/{sh.2.2} names={names}{tg}"
           | none => "bad-build")
       | _ => "bad-sexp")
  | _ => "bad-op"

end ChaiVerif.Drv
