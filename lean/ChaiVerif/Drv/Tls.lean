import ChaiVerif.Drv.Util
import ChaiVerif.Model.Tls
namespace ChaiVerif.Drv
open ChaiVerif

abbrev Locals := List (String × Int)

structure Eng where
  key : Nat
  globals : List (String × Int) := []
  funs : List (String × Int) := []
  convs : List String := []                 -- user conversions registered in THIS engine

structure TlsDrv where
  tls : Tls Locals := Tls.empty
  engines : List (String × Eng) := []
  out : List String := []

def updAssoc (m : List (String × Int)) (k : String) (v : Int) : List (String × Int) := (k, v) :: m.filter (fun p => p.1 != k)

def setEng (d : TlsDrv) (name : String) (e : Eng) : TlsDrv := { d with engines := (name, e) :: d.engines.filter (fun p => p.1 != name) }

def tlsStep (d : TlsDrv) (w : List String) : TlsDrv :=
  match w with
  | ["new", e, _] =>
      let (t, k) := d.tls.newStorage
      setEng { d with tls := t } e { key := k }
  | ["new", e, _, _] =>                                   -- constructed on a given thread: the id counter is process-wide, so the thread does not matter
      let (t, k) := d.tls.newStorage
      setEng { d with tls := t } e { key := k }
  | ["del", e] =>
      (match d.engines.lookup e with
       | some en => { d with tls := d.tls.destroy 0 en.key, engines := d.engines.filter (fun p => p.1 != e) }     -- the destructor runs on the main thread
       | none => d)
  | ["del", e, th] =>
      (match d.engines.lookup e with
       | some en => { d with tls := d.tls.destroy (th.toNat?.getD 0) en.key, engines := d.engines.filter (fun p => p.1 != e) }
       | none => d)
  | op :: th :: e :: name :: rest =>
      let thn := th.toNat?.getD 0
      let v : Int := ((rest.head?).bind parseInt?).getD 0
      (match d.engines.lookup e with
       | none => if op == "setl" || op == "setg" then d else { d with out := d.out ++ ["noengine"] }
       | some en =>
         match op with
         | "setl" =>
             let (t, m) := d.tls.access thn en.key []
             { d with tls := t.write thn en.key (updAssoc m name v) }
         | "getl" =>
             let (t, m) := d.tls.access thn en.key []
             { d with tls := t, out := d.out ++ [match m.lookup name with | some x => toString x | none => "undef"] }
         | "setg" => setEng d e { en with globals := updAssoc en.globals name v }
         | "getg" => { d with out := d.out ++ [match en.globals.lookup name with | some x => toString x | none => "undef"] }
         | "def" =>
             if (en.funs.lookup name).isSome then { d with out := d.out ++ ["err"] }
             else { (setEng d e { en with funs := updAssoc en.funs name v }) with out := d.out ++ ["ok"] }
         | "call" => { d with out := d.out ++ [match en.funs.lookup name with | some x => toString x | none => "undef"] }
         | "conv" =>
             if en.convs.contains name then { d with out := d.out ++ ["err"] }
             else { (setEng d e { en with convs := name :: en.convs }) with out := d.out ++ ["ok"] }
         | "useconv" => { d with out := d.out ++ [if en.convs.contains name then toString (10 + (name.toNat?.getD 0)) else "undef"] }
         | _ => d)
  | _ => d

def tlsLine (line : String) : String :=
  let ops := (line.splitOn ";").map words |>.filter (· ≠ [])
  let d := ops.foldl tlsStep {}
  let r := ",".intercalate d.out
  s!"model={r}\tspec={r}"

end ChaiVerif.Drv
