import ChaiVerif.Drv.Util
import ChaiVerif.Spec.Cast
import ChaiVerif.Model.Bind
namespace ChaiVerif.Drv
open ChaiVerif

def kindOf : String → Option CA
  | "int_var" => some ⟨.int, false, true, 28⟩ | "int_const" => some ⟨.int, true, true, 32⟩ | "int_ref" => some ⟨.int, false, false, 164⟩
  | "int_cref" => some ⟨.int, true, false, 168⟩ | "double_var" => some ⟨.double, false, true, 10⟩ | "double_const" => some ⟨.double, true, true, 14⟩
  | "bool_var" => some ⟨.bool, false, true, 1⟩ | "string_var" => some ⟨.string, false, true, 1⟩ | "string_const" => some ⟨.string, true, true, 2⟩
  | "string_ref" => some ⟨.string, false, false, 3⟩ | "base_var" => some ⟨.base, false, true, 21⟩ | "base_const" => some ⟨.base, true, true, 22⟩
  | "base_ref" => some ⟨.base, false, false, 11⟩ | "base_cref" => some ⟨.base, true, false, 12⟩ | "base_sp" => some ⟨.base, false, true, 23⟩
  | "base_spc" => some ⟨.base, true, true, 24⟩ | "base_ptr" => some ⟨.base, false, false, 11⟩ | "derived_var" => some ⟨.derived, false, true, 31⟩
  | "derived_const" => some ⟨.derived, true, true, 32⟩ | "derived_ref" => some ⟨.derived, false, false, 13⟩ | "derived_sp" => some ⟨.derived, false, true, 33⟩
  | "other_var" => some ⟨.other, false, true, 3⟩ | "long_var" => some ⟨.long, false, true, 36⟩ | "float_var" => some ⟨.float, false, true, 6⟩
  | "undef" => some ⟨.undef, false, false, 0⟩
  | "both_var" => some ⟨.both, false, true, 51⟩ | "both_ref" => some ⟨.both, false, false, 52⟩ | "both_sp" => some ⟨.both, false, true, 53⟩
  | "both_ptr" => some ⟨.both, false, false, 52⟩ | "both_cref" => some ⟨.both, true, false, 54⟩
  | _ => none

def strOfTag : Ty → Int → String
  | .string, 1 => "sv" | .string, 2 => "sc" | .string, 3 => "gs" | _, n => toString n

def bareName : Ty → String
  | .int => "i" | .double => "d" | .bool => "b" | .long => "l" | .float => "f" | .base => "4Base"
  | .derived => "7Derived" | .other => "5Other" | .second => "6Second" | .both => "4Both" | .string => "NSt7__cxx1112basic_stringIcSt11char_traitsIcESaIcEEE" | .undef => "undef"

/-- what the function body logs for a received argument -/
def received (p : CP) (a : CA) : String :=
  match p with
  | .boxedValue => "boxed:" ++ bareName a.ty
  | .boxedNumber => "boxed:" ++ bareName a.ty
  | .typed .int _ => s!"int:{Int.tdiv a.num 4}"
  | .typed .long _ => s!"long:{Int.tdiv a.num 4}"
  | .typed .double _ => s!"double:{a.num}"
  | .typed .float _ => s!"float:{a.num}"
  | .typed .bool _ => s!"bool:{a.num}"
  | .typed .string _ => "string:" ++ strOfTag .string a.num
  | .typed .base _ => s!"base:{a.num}"
  | .typed .derived _ => s!"derived:{a.num}"
  | .typed .other _ => s!"other:{a.num}"
  | .typed .second _ => s!"second:{a.num + 1000}"          -- the callee reads Second::b through the reference it was given
  | .typed .both _ => s!"both:{a.num}"
  | .typed .undef _ => "?"

/-- `bind <pattern over b/_> <number of call arguments> <mixed 0|1>`: the harness binds a logging function of `pattern.length` parameters
    (all int, or int / string alternating when mixed) with stored values at the `b` positions and calls the result -/
def bindLine (pattern : String) (nargs : Nat) (mixed : Bool) : String :=
  let pat := pattern.toList
  let isStr (i : Nat) : Bool := mixed && i % 2 == 1
  let placeholders := (List.range pat.length).filter (fun i => pat.getD i 'b' == '_')
  let bs : List (Option (Bool × String)) := (List.range pat.length).map (fun i =>
    if pat.getD i 'b' == '_' then none else some (if isStr i then (true, s!"sb{i}") else (false, s!"i{100 + i}")))
  let ps : List (Bool × String) := (List.range nargs).map (fun j =>
    match placeholders[j]? with
    | some p => if isStr p then (true, s!"sa{j}") else (false, s!"i{1 + j}")
    | none => (false, s!"i{1 + j}"))
  let show_ (vs : List (Bool × String)) : String :=
    if vs.length == pat.length && (List.range vs.length).all (fun i => (vs.getD i (false, "")).1 == isStr i) then
      "entered rec(" ++ ",".intercalate (vs.map (·.2)) ++ ")"
    else "error"
  s!"model={show_ (Bind.buildParamList bs ps)}\tspec={show_ (Bind.fill bs ps)}"

def dispLine (line : String) : String :=
  match words line with
  | ["cast", k, p] =>
      (match kindOf k, p.toNat?.bind paramOfId with
       | some a, some cp =>
          let r := if castOkSpec cp a then "ok " ++ received cp a else "bad_boxed_cast"
          s!"model={r}\tspec={r}"
       | _, _ => "bad-op")
  | ["disp", order, kinds] =>
      let fs := (order.splitOn ",").filterMap (fun s => s.toNat?.bind fnOfId)
      let args := (kinds.splitOn ",").filterMap kindOf
      let r := match dispatch catalogueCfg fs args with
        | .entered id args' =>
            (match fs.find? (fun (f : DFn CP) => f.id == id) with
             | some f => s!"entered {id} " ++ " ".intercalate ((f.params.zip args').map (fun (pa : CP × CA) => received pa.1 pa.2))
             | none => "entered ?")
        | .error => "error"
      s!"model={r}\tspec={r}"
  | ["bind", pattern, n, mixed] =>
      (match n.toNat? with
       | some k => bindLine pattern k (mixed == "1")
       | none => "bad-op")
  | _ => "bad-op"

end ChaiVerif.Drv
