import ChaiVerif.Drv.Util
import ChaiVerif.Model.Rc
namespace ChaiVerif.Drv
open ChaiVerif

/-- glue state of the `rc` driver mode: the M-RC state plus the scope frames' name tables (names are resolved here, outside the model) -/
structure RcDrv where
  rc : Rc := Rc.empty
  frames : List (Nat × List (String × Nat)) := [(1, [])]     -- innermost last; (holder id, name ↦ object)
  next : Nat := 2
  out : List String := []

def RcDrv.lookup (d : RcDrv) (x : String) : Option Nat :=
  d.frames.reverse.findSome? (fun fr => (fr.2.reverse.find? (·.1 == x)).map (·.2))

def RcDrv.frameOf (d : RcDrv) (x : String) : Nat :=
  ((d.frames.reverse.find? (fun fr => fr.2.any (·.1 == x))).map (·.1)).getD 1

def RcDrv.cur (d : RcDrv) : Nat := (d.frames.getLast?.map (·.1)).getD 1

def RcDrv.bind (d : RcDrv) (x : String) (o : Nat) : RcDrv :=
  { d with frames := match d.frames.reverse with
      | [] => [(1, [(x, o)])]
      | fr :: rest => (((fr.1, fr.2 ++ [(x, o)]) :: rest).reverse) }

def sortNat (l : List Nat) : List Nat := l.mergeSort (· ≤ ·)

def RcDrv.live (d : RcDrv) : String := ",".intercalate ((sortNat d.rc.liveTags).map toString)

def rcStep (d : RcDrv) (w : List String) : RcDrv :=
  match w with
  | ["new", x, t] =>
      let o := d.rc.rc.length
      { (d.bind x o) with rc := d.rc.create d.cur (t.toNat?.getD 0) }
  | ["copy", x, y] =>
      (match d.lookup y with
       | some oy =>
          let o := d.rc.rc.length
          { (d.bind x o) with rc := d.rc.create d.cur (d.rc.tags.getD oy 0) }
       | none => d)
  | ["ref", x, y] =>
      (match d.lookup y with
       | some oy => { (d.bind x oy) with rc := d.rc.acquire d.cur oy }
       | none => d)
  | ["push"] => { d with frames := d.frames ++ [(d.next, [])], next := d.next + 1 }
  | ["pop"] =>
      (match d.frames.reverse with
       | fr :: rest => if rest.isEmpty then d else { d with frames := rest.reverse, rc := d.rc.release fr.1 }
       | [] => d)
  | ["keep", y] => (match d.lookup y with | some oy => { d with rc := d.rc.acquire 0 oy } | none => d)
  | ["relall"] => { d with rc := d.rc.release 0 }
  | ["vec", v] => d.bind v 1000000                       -- the vector itself is not a tracked object; its slots belong to v's frame
  | ["vpush", v, y] =>
      (match d.lookup y with
       | some oy => { d with rc := d.rc.create (d.frameOf v) (d.rc.tags.getD oy 0) }
       | none => d)
  | ["vref", v, y] => (match d.lookup y with | some oy => { d with rc := d.rc.acquire (d.frameOf v) oy } | none => d)
  | ["clo", f, y] => (match d.lookup y with | some oy => { (d.bind f 1000000) with rc := d.rc.acquire d.cur oy } | none => d)
  | ["cp", k] => { d with out := d.out ++ [s!"{k}:{d.live}"] }
  | ["endlocals"] => { d with rc := d.rc.release 1, out := d.out ++ [s!"locals:{({ d with rc := d.rc.release 1 } : RcDrv).live}"] }
  | _ => d

/-- line: ops separated by `;` -> the live tags at every checkpoint, after the locals are dropped, and after C++ released its pointers -/
def rcLine (line : String) : String :=
  let ops := (line.splitOn ";").map words |>.filter (· ≠ [])
  let d := ops.foldl rcStep {}
  let d1 := rcStep d ["endlocals"]
  let d2 := rcStep d1 ["relall"]
  let r := ";".intercalate d1.out ++ s!";released:{d2.live};log_nodup:{decide d2.rc.log.Nodup}"
  s!"model={r}\tspec={r}"

end ChaiVerif.Drv
