import ChaiVerif.Drv.Util
import ChaiVerif.Model.Ws
namespace ChaiVerif.Drv
open ChaiVerif ChaiVerif.Ws

/-- line: `<hex bytes> <start index> <skip_cr 0|1>`: what SkipWS returns and where the cursor ends -/
def wsLine (line : String) : String :=
  match words line with
  | [hx, i, cr] =>
    match hexByteList? hx, i.toNat? with
    | some s, some i =>
      if i > s.length then "bad-op" else
      match skip s (cr == "1") i with
      | .ok m j => s!"ok {if m then 1 else 0} {j}"
      | .illegal j => s!"illegal {j}"
      | .fuel => "fuel"
    | _, _ => "bad-op"
  | _ => "bad-op"

end ChaiVerif.Drv
