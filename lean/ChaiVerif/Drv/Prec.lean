import ChaiVerif.Drv.Util
import ChaiVerif.Props.C03Prec
namespace ChaiVerif.Drv
open ChaiVerif ChaiVerif.Prec

def tokOf (w : String) : Option Tok :=
  if w == "(" then some .lp else if w == ")" then some .rp else if w == "?" then some .q else if w == ":" then some .colon
  else if w.startsWith "a" then (w.drop 1).toString.toNat?.map Tok.atom
  else if w.startsWith "s" then (w.drop 1).toString.toNat?.map Tok.sym
  else if w.startsWith "e" then (w.drop 1).toString.toNat?.map Tok.asg
  else none

partial def showE : E → String
  | .atom n => s!"a{n}"
  | .pre s e => s!"(p {s} {showE e})"
  | .bin s a b => s!"(b {s} {showE a} {showE b})"
  | .tern c t e => s!"(t {showE c} {showE t} {showE e})"

def showTok : Tok → String
  | .atom n => s!"a{n}" | .sym s => s!"s{s}" | .lp => "(" | .rp => ")" | .q => "?" | .colon => ":" | .asg s => s!"e{s}"

partial def showQ : Q → String
  | .expr e => showE e
  | .eq s l r => s!"(e {s} {showE l} {showQ r})"

/-- line: tokens separated by blanks (`a<n>`, `s<symbol number>`, `e<assignment symbol number>`, `(`, `)`, `?`, `:`): what `Equation()` of the model builds with the
    regenerated tables, and what it leaves unread -/
def precLine (line : String) : String :=
  match (words line).mapM tokOf with
  | none => "bad-op"
  | some ts =>
    match runEq C03Prec.chaiCfg Gen.precAssignSymbols (40 * (ts.length + 2)) ts with
    | .ok e rest => s!"ok {showQ e} rest={" ".intercalate (rest.map showTok)}"
    | .nomatch => "nomatch"
    | .error => "error"
    | .fuel => "fuel"

end ChaiVerif.Drv
