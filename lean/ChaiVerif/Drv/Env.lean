import ChaiVerif.Drv.Util
import ChaiVerif.Model.Env
namespace ChaiVerif.Drv
open ChaiVerif

/-- names: script functions 0..2 ("f<k>"), C++ functions 10..12 ("g<k>"), globals 0..2 ("c<k>"), types 0..2, locals 0..2 -/
def parseEnvOp (s : String) : Option EnvOp :=
  match s.splitOn ":" with
  | ["fn", n, sg, tag] => do pure (.addFn (← n.toNat?) ⟨← sg.toNat?, ← tag.toNat?, false⟩)
  | ["cfn", n, sg, tag] => do pure (.addFn (10 + (← n.toNat?)) ⟨← sg.toNat?, ← tag.toNat?, sg != "0"⟩)
  | ["const", n, v] => do pure (.addConst (← n.toNat?) (← parseInt? v))
  | ["glob", n, v] => do pure (.setGlobal (← n.toNat?) (← parseInt? v))
  | ["type", n, k] => do pure (.addType (← n.toNat?) (← k.toNat?))
  | ["use", k] => do pure (.use (← k.toNat?))
  | ["loc", n, v] => do pure (.local_ (← n.toNat?) (← parseInt? v))
  | ["get"] => some .get
  | ["set", k] => do pure (.set (← k.toNat?))
  | _ => none

def obsFns (e : Env) (base : Nat) (pre : String) : String :=
  ",".intercalate ((List.range 3).map (fun k =>
    let vec := (e.functions.lookup (base + k)).getD []
    s!"{pre}{k}=" ++ ".".intercalate ((List.range 3).map (fun a =>
      match vec.find? (fun f => f.sig == a) with
      | some f => toString f.tag
      | none => "-"))))

def obsKV (l : List (Nat × Int)) (pre : String) : String :=
  ",".intercalate ((List.range 3).map (fun k => s!"{pre}{k}=" ++ (match l.lookup k with | some v => toString v | none => "-")))

def observe (s : Sys) : String :=
  "F:" ++ obsFns s.env 0 "f" ++ "|G:" ++ obsFns s.env 10 "g" ++ "|C:" ++ obsKV s.env.globals "c" ++
  "|T:" ++ ",".intercalate ((List.range 3).map (fun k => s!"t{k}=" ++ (match s.env.types.lookup k with | some v => toString v | none => "-"))) ++
  "|L:" ++ obsKV s.locals "l" ++ "|E:" ++ (if s.evals.isEmpty then "-" else ",".intercalate (s.evals.map toString))

def stateHistory (ops : List String) : String :=
  let step := fun (acc : Sys × List String) (o : String) =>
    match parseEnvOp o with
    | none => (acc.1, acc.2 ++ ["bad-op"])
    | some op => let r := sysStep acc.1 op; (r.1, acc.2 ++ [(if r.2 then "ok " else "err ") ++ observe r.1])
  ";".intercalate (ops.foldl step (Sys.init, [])).2

def stateLine (line : String) : String :=
  match words line with
  | ["state", ops] => let r := stateHistory (ops.splitOn ";"); s!"model={r}\tspec={r}"
  | _ => "bad-op"

end ChaiVerif.Drv
