/- Helpers for the line protocol (I/O side only; nothing here is used in a theorem). -/
namespace ChaiVerif.Drv

def words (s : String) : List String :=
  (s.trimAscii.toString.splitOn " ").filter (· ≠ "")

def fields (s : String) : List String := s.splitOn "\t"

def parseInt? (s : String) : Option Int :=
  if s.startsWith "-" then (s.drop 1).toString.toNat?.map (fun n => -(n : Int)) else s.toNat?.map (fun n => (n : Int))

def hexDigit? (c : Char) : Option Nat :=
  if '0' ≤ c ∧ c ≤ '9' then some (c.toNat - '0'.toNat)
  else if 'a' ≤ c ∧ c ≤ 'f' then some (c.toNat - 'a'.toNat + 10)
  else if 'A' ≤ c ∧ c ≤ 'F' then some (c.toNat - 'A'.toNat + 10)
  else none

def parseHex? (s : String) : Option Nat :=
  s.toList.foldl (fun acc c => match acc, hexDigit? c with
    | some a, some d => some (a * 16 + d)
    | _, _ => none) (some 0)

def hexByteList? (s : String) : Option (List Nat) :=
  if s == "-" then some [] else
  let rec go : List Char → List Nat → Option (List Nat)
    | [], acc => some acc.reverse
    | [_], _ => none
    | a :: b :: rest, acc =>
      match hexDigit? a, hexDigit? b with
      | some x, some y => go rest ((x * 16 + y) :: acc)
      | _, _ => none
  go s.toList []

def toHex (n : Nat) (width : Nat) : String :=
  let ds := (Nat.toDigits 16 n)
  String.ofList (List.replicate (width - ds.length) '0' ++ ds)

def bytesToHex (bs : List Nat) : String := String.join (bs.map (fun b => toHex b 2))

/-- Run `f` on every stdin line, printing one line per input line. -/
partial def lineLoop (f : String → String) : IO Unit := do
  let stdin ← IO.getStdin
  let stdout ← IO.getStdout
  let rec loop : IO Unit := do
    let line ← stdin.getLine
    if line.isEmpty then return ()
    let l := if line.endsWith "\n" then (line.dropEnd 1).toString else line
    stdout.putStrLn (f l)
    loop
  loop
  stdout.flush

end ChaiVerif.Drv
