import ChaiVerif.Drv.Util
import ChaiVerif.Spec.Arith
import ChaiVerif.Gen.Arith
namespace ChaiVerif.Drv
open ChaiVerif

def ctOfString : String → Option CT
  | "i8" => some .i8 | "u8" => some .u8 | "i16" => some .i16 | "u16" => some .u16
  | "i32" => some .i32 | "u32" => some .u32 | "i64" => some .i64 | "u64" => some .u64
  | "f32" => some .f32 | "f64" => some .f64 | "f80" => some .f80 | _ => none

def itName (t : IT) : String := (if t.sgn then "i" else "u") ++ toString t.bits
def fkName : FK → String | .f32 => "f32" | .f64 => "f64" | .f80 => "f80"

def numOf (ct : CT) (v : String) : Option Num :=
  match ct.toIT, ct.toFK with
  | some t, _ => (parseInt? v).map (.i t)
  | _, some k => (parseHex? v).map (fun b => .f k (Float.ofBits b.toUInt64))
  | _, _ => none

def showNum : Num → String
  | .i t v => s!"{itName t} {v}"
  | .f .f80 _ => "f80 -"
  | .f k x => if x.isNaN then s!"{fkName k} nan" else s!"{fkName k} {toHex x.toBits.toNat 16}"

def showRes : MRes → String
  | .val n => "val " ++ showNum n
  | .bool b => "bool " ++ (if b then "1" else "0")
  | .lhs n => "lhs " ++ showNum n
  | .arithErr => "arithErr" | .badCast => "badCast" | .trap => "trap" | .ub => "ub"

def operOfString (s : String) : Option Oper :=
  Oper.all.find? (fun o => (reprStr o).endsWith ("." ++ s))
def opTextOfString (s : String) : Option OpText :=
  (OpText.none_ :: OpText.all).find? (fun o => (reprStr o).endsWith ("." ++ s))

/-- line: `<route> <op> <lv> <n> [<ct> <val>]*`; routes: `direct2`, `direct1` (op is an `Oper`),
    `node`, `func` (op is an `OpText`).  Output: `model=<res>\tspec=<res>`. -/
def arithLine (line : String) : String :=
  match words line with
  | route :: op :: lv :: rest =>
    let lvb := lv == "1"
    let rec nums : List String → Option (List Num)
      | [] => some []
      | ct :: v :: more => do
          let c ← ctOfString ct
          let n ← numOf c v
          let ns ← nums more
          pure (n :: ns)
      | _ => none
    match nums rest with
    | none => "bad-op"
    | some args =>
      let out (m s : MRes) := s!"model={showRes m}\tspec={showRes s}"
      match route, args with
      | "direct2", [a, b] =>
          (match operOfString op with
           | some o => out (goModel Gen.goRows Gen.zeroGuard o a b lvb) (specGo o a b lvb)
           | none => "bad-op")
      | "direct1", [a] =>
          (match operOfString op with
           | some o => out (unModel Gen.unaryRows o a lvb) (specUn o a lvb)
           | none => "bad-op")
      | "node", _ =>
          (match opTextOfString op with
           | some t => out (routeNode Gen.goRows Gen.unaryRows Gen.zeroGuard Gen.toOperatorCases Gen.wrappers Gen.registered t args lvb) (specFunction t args lvb)
           | none => "bad-op")
      | "func", _ =>
          (match opTextOfString op with
           | some t => out (routeFunction Gen.goRows Gen.unaryRows Gen.zeroGuard Gen.wrappers Gen.registered t args lvb) (specFunction t args lvb)
           | none => "bad-op")
      | _, _ => "bad-op"
  | _ => "bad-op"

def abiLines : List String :=
  SrcType.all.map (fun t =>
    let n := ((reprStr t).splitOn ".").getLast!
    s!"{n} {t.sizeSigned.1} {if t.sizeSigned.2 then 1 else 0}")

end ChaiVerif.Drv
