import ChaiVerif.Drv.Util
import ChaiVerif.Props.C19
namespace ChaiVerif.Drv
open ChaiVerif

/-- mutable world of the `use` histories: (dir, file) ↦ kind (0 ok, 1 eval error, 2 nested missing) -/
abbrev FS := List ((Nat × Nat) × Nat)

def fsWorld (fs : FS) : World :=
  { exists_ := fun p => match p with
      | [d, f] => (fs.lookup (d, f)).isSome
      | _ => false
    eval := fun p => match p with
      | [d, f] => (match fs.lookup (d, f) with
          | some 0 => .ok | some 1 => .evalError | some _ => .nestedNotFound | none => .ok)
      | _ => .ok }

def showUseOut : UseOut → String
  | .done => "done" | .evalError => "error" | .nestedNotFound => "notfound:nested" | .notFound => "notfound:self"

/-- `use <ndirs> <ops>`; ops `w:d:f:k`, `rm:d:f`, `u:f`.  Output per `u`: `<outcome>/<evaluated ids so far>` -/
def useHistory (ndirs : Nat) (ops : List String) : String :=
  let paths : List (List Nat) := (List.range ndirs).map (fun d => [d])
  let step := fun (acc : FS × UseState × List String) (o : String) =>
    let (fs, st, outs) := acc
    match o.splitOn ":" with
    | ["w", d, f, k] => (match d.toNat?, f.toNat?, k.toNat? with
        | some d, some f, some k => (((d, f), k) :: fs.filter (fun e => e.1 != (d, f)), st, outs)
        | _, _, _ => (fs, st, outs ++ ["bad-op"]))
    | ["rm", d, f] => (match d.toNat?, f.toNat? with
        | some d, some f => (fs.filter (fun e => e.1 != (d, f)), st, outs)
        | _, _ => (fs, st, outs ++ ["bad-op"]))
    | ["u", f] => (match f.toNat? with
        | some f =>
            let (r, st') := useFile (fsWorld fs) [f] paths st
            let ev := ",".intercalate (st'.evals.map (fun p => match p with | [d, f] => s!"{d}.{f}" | _ => "?"))
            (fs, st', outs ++ [s!"{showUseOut r}/{ev}"])
        | none => (fs, st, outs ++ ["bad-op"]))
    | _ => (fs, st, outs ++ ["bad-op"])
  ";".intercalate (ops.foldl step ([], ⟨[], []⟩, [])).2.2

def fileLine (line : String) : String :=
  match words line with
  | ["load", hex] =>
      (match hexByteList? hex with
       | some bs => s!"model={bytesToHex (loadFile Gen.clearBeforeSeek bs)}-\tspec={bytesToHex (stripBom bs)}-"
       | none => "bad-op")
  | ["use", nd, ops] =>
      (match nd.toNat? with
       | some n => let r := useHistory n (ops.splitOn ";"); s!"model={r}\tspec={r}"
       | none => "bad-op")
  | _ => "bad-op"

end ChaiVerif.Drv
