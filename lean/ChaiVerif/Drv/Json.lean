import ChaiVerif.Drv.Util
import ChaiVerif.Model.Json
namespace ChaiVerif.Drv
open ChaiVerif

/-- Canonical rendering shared with the harness: n | b0/b1 | i<int> | D | s<hex> | [a,b] | {<hexkey>:v,...} (keys sorted) -/
def canonJ : Nat → J → String
  | 0, _ => "?"
  | _ + 1, .null => "n"
  | _ + 1, .bool b => if b then "b1" else "b0"
  | _ + 1, .int i => s!"i{i}"
  | _ + 1, .dbl _ _ _ => "D"
  | _ + 1, .str s => "s" ++ bytesToHex s
  | f + 1, .arr xs => "[" ++ ",".intercalate (xs.map (canonJ f)) ++ "]"
  | f + 1, .obj kvs => "{" ++ ",".intercalate (kvs.map (fun p => bytesToHex p.1 ++ ":" ++ canonJ f p.2)) ++ "}"

def hasDbl : Nat → J → Bool
  | 0, _ => false
  | _ + 1, .dbl _ _ _ => true
  | f + 1, .arr xs => xs.any (hasDbl f)
  | f + 1, .obj kvs => kvs.any (fun p => hasDbl f p.2)
  | _ + 1, _ => false

/-- line: `parse <hex text>` -> `ok <canon of from_json> dump=<hex of to_json(from_json)|D>` or `error <kind>` -/
def jsonLine (line : String) : String :=
  match words line with
  | ["parse", hex] =>
      (match hexByteList? hex with
       | some bs =>
          let fuel := 4 * bs.length + 16
          let r := match jsonLoad bs with
            | .ok v =>
                let nv := normJ fuel v
                let d := if hasDbl fuel nv then "D" else bytesToHex (dumpJ fuel nv 1)
                s!"ok {canonJ fuel nv} dump={d}-"
            | .error e => "error " ++ reprStr e
          s!"model={r}\tspec={r}"
       | none => "bad-op")
  | _ => "bad-op"

end ChaiVerif.Drv
