import ChaiVerif.Drv.Util
import ChaiVerif.Model.Pos
namespace ChaiVerif.Drv
open ChaiVerif

/-- line: `<hex text> <ops>` (i = ++, d = --): the cursor's line and column after every op -/
def posLine (line : String) : String :=
  match words line with
  | [hx, ops] =>
    let t : List UInt8 := ((hexByteList? hx).getD []).map (fun n => UInt8.ofNat n)
    let step (acc : Pos × String) (c : Char) : Pos × String :=
      let (p, out) := acc
      if c == 'i' then let q := p.inc t; (q, out ++ s!"{q.line} {q.col},")
      else if c == 'd' then (if p.idx == 0 then (p, out ++ "underflow,") else let q := p.dec t; (q, out ++ s!"{q.line} {q.col},"))
      else (p, out)
    let r := (ops.toList.foldl step (Pos.init, "")).2
    s!"model={r}\tspec={r}"
  | _ => "bad-op"

end ChaiVerif.Drv
