import ChaiVerif.Drv.Util
import ChaiVerif.Drv.Stl
import ChaiVerif.Model.Prelude
namespace ChaiVerif.Drv
open ChaiVerif ChaiVerif.Prelude

def predOf : String → Option (Int → Bool)
  | "even" => some (fun x => evenM x) | "pos" => some (fun x => decide (x > 0)) | "lt5" => some (fun x => decide (x < 5))
  | "never" => some (fun _ => false) | "always" => some (fun _ => true) | _ => none
def unOf : String → Option (Int → Int)
  | "inc" => some (· + 1) | "dbl" => some (· * 2) | "neg" => some (fun x => -x) | _ => none
def binOf : String → Option (Int → Int → Int)
  | "add" => some (· + ·) | "sub" => some (· - ·) | "mul" => some (· * ·) | "maxf" => some maxM | _ => none

def showB (b : Bool) : String := if b then "true" else "false"
def out (res : String) (trace : Option (List Int)) : String :=
  "res=" ++ res ++ (match trace with | some t => " trace=" ++ showInts t | none => "")

def showPairs (ps : List (Int × Int)) : String :=
  if ps.isEmpty then "-" else ";".intercalate (ps.map (fun p => s!"{p.1}:{p.2}"))

def strOfInts (xs : List Int) : String := String.ofList (xs.map (fun c => Char.ofNat c.toNat))

/-- one case of the prelude correspondence -/
def preludeCase (w : List String) : Option String :=
  match w with
  | ["for_each", l] => some (out "-" (some (forEachTrace (csvInts l))))
  | ["any_of", l, p] => (predOf p).map (fun p => let r := anyOf p (csvInts l); out (showB r.1) (some r.2))
  | ["all_of", l, p] => (predOf p).map (fun p => let r := allOf p (csvInts l); out (showB r.1) (some r.2))
  | ["contains", l, v] => (parseInt? v).map (fun v => out (showB (containsM v (csvInts l))) none)
  | ["map", l, f] => (unOf f).map (fun f => out (showInts (mapInto f (csvInts l) [])) (some (csvInts l)))
  | ["foldl", l, b, z] => do let b ← binOf b; let z ← parseInt? z; pure (out (toString (foldlM b (csvInts l) z)) none)
  | ["sum", l] => some (out (toString (foldlM (· + ·) (csvInts l) 0)) none)
  | ["product", l] => some (out (toString (foldlM (· * ·) (csvInts l) 1)) none)
  | ["concat", a, b] => some (out (showInts (concatInto (csvInts b) (csvInts a))) none)
  | ["take", l, n] => (parseInt? n).map (fun n => out (showInts (takeInto (csvInts l) n [])) none)
  | ["drop", l, n] => (parseInt? n).map (fun n => out (showInts (dropSkip (csvInts l) n)) none)
  | ["take_while", l, p] => (predOf p).map (fun p =>
      let xs := csvInts l; out (showInts (takeWhileInto p xs [])) (some (xs.take ((xs.takeWhile p).length + 1))))
  | ["drop_while", l, p] => (predOf p).map (fun p =>
      let xs := csvInts l; out (showInts (dropWhileSkip p xs)) (some (xs.take ((xs.takeWhile p).length + 1))))
  | ["filter", l, p] => (predOf p).map (fun p => out (showInts (filterInto p (csvInts l) [])) (some (csvInts l)))
  | ["reduce", l, b] => (binOf b).map (fun b => match reduceM b (csvInts l) with
      | some v => out (toString v) none | none => "res=error")
  | ["join", l] => some (out (", ".intercalate ((csvInts l).map toString)) none)
  | ["joins", l, d] =>
      let words := (l.splitOn ",").map (fun t => if t == "E" then "" else t)
      let delim := if d == "c" then "," else if d == "cs" then ", " else if d == "e" then "" else "--"
      some (out (showInts ((delim.intercalate words).toList.map (fun c => (c.toNat : Int)))) none)
  | ["to_strings", l] =>
      let words := (l.splitOn ",").map (fun t => if t == "E" then "" else t)
      some (out (showInts (("[" ++ ", ".intercalate words ++ "]").toList.map (fun c => (c.toNat : Int)))) none)
  | ["to_string", l] => some (out ("[" ++ ", ".intercalate ((csvInts l).map toString) ++ "]") none)
  | ["generate_range", x, y] => do let x ← parseInt? x; let y ← parseInt? y; pure (out (showInts (genRange x y)) none)
  | ["zip_with", b, l1, l2] => (binOf b).map (fun b => out (showInts (zipWithInto b (csvInts l1) (csvInts l2) [])) none)
  | ["zip", l1, l2] => some (out (showPairs (zipInto (csvInts l1) (csvInts l2) [])) none)
  | ["reverse", l] => some (out (showInts (reverseInto (csvInts l) [])) none)
  | ["retro", l] => some (out "-" (some (forEachTrace (retro (csvInts l)))))
  | ["retroretro", l] => some (out "-" (some (forEachTrace (retro (retro (csvInts l))))))
  | ["find", l, v] => (parseInt? v).map (fun v => out (showInts (findFrom v (csvInts l))) none)
  | ["min", a, b] => do let a ← parseInt? a; let b ← parseInt? b; pure (out (toString (minM a b)) none)
  | ["max", a, b] => do let a ← parseInt? a; let b ← parseInt? b; pure (out (toString (maxM a b)) none)
  | ["odd", a] => (parseInt? a).map (fun a => out (showB (oddM a)) none)
  | ["even", a] => (parseInt? a).map (fun a => out (showB (evenM a)) none)
  | ["ltrim", s] => some (out (showInts (ltrim (csvInts s))) none)
  | ["rtrim", s] => some (out (showInts (rtrim (csvInts s))) none)
  | ["trim", s] => some (out (showInts (trim (csvInts s))) none)
  | _ => none

/-- `R:<fn> …`: the input is a *range object* used twice: a range is a value, so both uses see the same elements. -/
def twice (r : String) : String :=
  match r.splitOn " trace=" with
  | [res, tr] => s!"{res}|{(res.drop 4).toString} trace={tr}|{tr}"
  | _ => s!"{r}|{(r.drop 4).toString}"

def preludeLine (line : String) : String :=
  match words line with
  | f :: rest =>
    if f.startsWith "R:" then
      (match preludeCase ((f.drop 2).toString :: rest) with
       | some r => let t := twice r; s!"model={t}\tspec={t}"
       | none => "bad-op")
    else
      (match preludeCase (f :: rest) with
       | some r => s!"model={r}\tspec={r}"
       | none => "bad-op")
  | _ => "bad-op"

end ChaiVerif.Drv
