import ChaiVerif.Drv.Util
import ChaiVerif.Spec.Lit
import ChaiVerif.Gen.Lit
import ChaiVerif.Model.LitCfg
namespace ChaiVerif.Drv
open ChaiVerif

def litTypeName : LitType → String
  | .int => "int" | .uint => "uint" | .long => "long" | .ulong => "ulong" | .llong => "llong" | .ullong => "ullong"

def showIntRes : IntRes → String
  | .ok t v => s!"ok {litTypeName t} {v}"
  | .error => "error"

def showBytes : Except CPErr (List Nat) → String
  | .ok bs => "ok " ++ bytesToHex bs
  | .error e => "error " ++ reprStr e

def isSpelling (tbl : List (List Nat)) (x : List Nat) : Bool := tbl.any (· == x)

/-- line: `int <base> <digits hex> <suffix hex>` | `str <body hex>` | `chr <body hex>` | `id <name hex>` -/
def litLine (line : String) : String :=
  match words line with
  | ["int", base, digits, suffix] =>
      (match base.toNat?, hexByteList? digits, hexByteList? suffix with
       | some b, some ds, some sf =>
          let (u, l, ll) := suffixScan sf.reverse (false, false, false)
          let lc := if ll then 2 else if l then 1 else 0
          (match stoPrefix b ds with
           | some v =>
              let m := buildInt Gen.ladder Gen.ladderElse Gen.fallback Gen.fallbackElse Gen.tooBig (b == 10) u l ll v
              let s := match cppIntType (b == 10) u lc v with
                       | some t => s!"ok {litTypeName t} {v}"
                       | none => if v > 18446744073709551615 then "error" else "unspecified"
              s!"model={showIntRes m}\tspec={s}"
           | none => "model=error\tspec=error")
       | _, _, _ => "bad-op")
  | ["str", body] =>
      (match hexByteList? body with
       | some bs =>
          let m := charParser genCfg bs
          let s := match cppUnescape (bs.length + 1) bs with
                   | some o => "ok " ++ bytesToHex o
                   | none => "error"
          s!"model={showBytes m}\tspec={s}"
       | none => "bad-op")
  | ["chr", body] =>
      (match hexByteList? body with
       | some bs =>
          let m := match charParser genCfg bs with
                   | .ok [b] => "ok " ++ bytesToHex [b]
                   | .ok _ => "error notOneChar"
                   | .error e => "error " ++ reprStr e
          let s := match cppUnescape (bs.length + 1) bs with
                   | some [b] => "ok " ++ bytesToHex [b]
                   | _ => "error"
          s!"model={m}\tspec={s}"
       | none => "bad-op")
  | ["id", name] =>
      (match hexByteList? name with
       | some bs =>
          let kw := (classify Gen.fnvBasis Gen.fnvPrime Gen.keywords bs).isSome
          let rs := (classify Gen.fnvBasis Gen.fnvPrime Gen.reserved bs).isSome
          let m := if kw || rs then "special" else "ordinary"
          let s := if isSpelling Gen.keywords bs || isSpelling Gen.reserved bs then "special" else "ordinary"
          s!"model={m}\tspec={s}\thash={fnv1a Gen.fnvBasis Gen.fnvPrime bs}"
       | none => "bad-op")
  | _ => "bad-op"

end ChaiVerif.Drv
