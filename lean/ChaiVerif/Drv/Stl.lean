import ChaiVerif.Drv.Util
import ChaiVerif.Props.C12
namespace ChaiVerif.Drv
open ChaiVerif

def csvInts (s : String) : List Int :=
  if s == "-" then [] else (s.splitOn ",").filterMap parseInt?

def showInts (xs : List Int) : String :=
  if xs.isEmpty then "-" else ",".intercalate (xs.map toString)

def showOut : StlOut → String
  | .unit => "ok" | .val v => s!"ok val {v}" | .size n => s!"ok size {n}" | .bool b => s!"ok bool {if b then 1 else 0}" | .absent => "ok undef"

def parseVOp (s : String) : Option VOp :=
  match s.splitOn ":" with
  | ["idx", i] => (parseInt? i).map .index
  | ["cidx", i] => (parseInt? i).map .index          -- the same access through a const view of the container (`const C &`, int overload)
  | ["front"] => some .front | ["back"] => some .back
  | ["push", v] => (parseInt? v).map .pushBack
  | ["pop"] => some .popBack
  | ["ins", p, v] => do let p ← parseInt? p; let v ← parseInt? v; pure (.insertAt p v)
  | ["era", p] => (parseInt? p).map .eraseAt
  | ["rsz", n, v] => do let n ← parseInt? n; let v ← parseInt? v; pure (.resize n v)
  | ["clr"] => some .clear | ["size"] => some .size | ["empty"] => some .empty
  | _ => none

/-- Run a vector/string op list through the model (guards from Gen) and the std:: spec in lock step. -/
def runVec (xs : List Int) (ops : List String) (isStr : Bool) : String × String :=
  let step := fun (acc : (List Int × List String × List Int × List String × Bool)) (o : String) =>
    let (mx, mo, sx, so, dead) := acc
    if dead then acc else
    match o.splitOn ":" with
    | ["srch", form, kind, needle, p] =>
        (match kind.toNat?, parseInt? p with
         | some k, some p =>
            let nd : List Int := if needle == "e" then [] else (needle.splitOn ".").filterMap parseInt?
            let pos : Nat := if form == "1" then strSearchDefaultPos k else (if p < 0 then (18446744073709551616 - p.natAbs) else p.toNat)
            let f := fun (ys : List Int) => s!"ok size {strSearch k ys nd pos}|{showInts ys}"
            (mx, mo ++ [f mx], sx, so ++ [f sx], false)
         | _, _ => (mx, mo ++ ["bad-op"], sx, so ++ ["bad-op"], true))
    | ["sub", p, l] =>
        (match parseInt? p, parseInt? l with
         | some p, some l =>
            let f := fun (ys : List Int) => match strSub ys p l with
              | some r => s!"ok sub {showInts r}|{showInts ys}"
              | none => s!"err|{showInts ys}"
            (mx, mo ++ [f mx], sx, so ++ [f sx], false)
         | _, _ => (mx, mo ++ ["bad-op"], sx, so ++ ["bad-op"], true))
    | _ =>
    match parseVOp o with
    | none => (mx, mo ++ ["bad-op"], sx, so ++ ["bad-op"], true)
    | some op =>
      let (mx', ms, md) := match vecStep C12.cfg mx op with
        | .ok ys out => (ys, showOut out, false)
        | .err _ => (mx, "err", false)
        | .ub => (mx, "ub", true)
      let (sx', ss) := match stdVec sx op with
        | some (ys, out) => (ys, showOut out)
        | none => (sx, "err")
      let _ := isStr
      (mx', mo ++ [s!"{ms}|{showInts mx'}"], sx', so ++ [s!"{ss}|{showInts sx'}"], md)
  let (_, mo, _, so, _) := ops.foldl step (xs, [], xs, [], false)
  (";".intercalate mo, ";".intercalate so)

def parseROp : String → Option ROp
  | "empty" => some .empty | "popf" => some .popFront | "popb" => some .popBack | "front" => some .front | "back" => some .back
  | _ => none

def runRng (xs : List Int) (ops : List String) : String × String :=
  let allG : StlCfg := ⟨true, true, true, true, .posLe, .posLt, true, true, true, true⟩
  let go := fun (cfg : StlCfg) =>
    let step := fun (acc : Rng × List String × Bool) (o : String) =>
      let (r, outs, dead) := acc
      if dead then acc else
      match parseROp o with
      | none => (r, outs ++ ["bad-op"], true)
      | some op =>
        match rngStep cfg r op with
        | .ok r' idx em =>
            let s := match idx, em with
              | some i, _ => s!"ok val {xs.getD i 0}"
              | _, some b => s!"ok bool {if b then 1 else 0}"
              | _, _ => "ok"
            (r', outs ++ [s], false)
        | .err => (r, outs ++ ["err"], false)
        | .ub => (r, outs ++ ["ub"], true)
    let (_, outs, _) := ops.foldl step (⟨0, xs.length⟩, [], false)
    ";".intercalate outs
  (go C12.cfg, go allG)

def showMap (m : List (Nat × Option Int)) : String :=
  if m.isEmpty then "-" else ",".intercalate (m.map (fun p => s!"k{p.1}=" ++ (match p.2 with | some v => toString v | none => "undef")))

def parseMOp (s : String) : Option MOp :=
  match s.splitOn ":" with
  | ["idx", k] => k.toNat?.map .index
  | ["at", k] => k.toNat?.map .at
  | ["set", k, v] => do let k ← k.toNat?; let v ← parseInt? v; pure (.set k v)
  | ["cnt", k] => k.toNat?.map .count
  | ["era", k] => k.toNat?.map .erase
  | ["size"] => some .size | ["empty"] => some .empty | ["clr"] => some .clear
  | _ => none

def runMap (ops : List String) : String :=
  let step := fun (acc : List (Nat × Option Int) × List String) (o : String) =>
    let (m, outs) := acc
    match parseMOp o with
    | none => (m, outs ++ ["bad-op"])
    | some op =>
      match mapStep m op with
      | .ok m' out => (m', outs ++ [s!"{showOut out}|{showMap m'}"])
      | .err _ => (m, outs ++ [s!"err|{showMap m}"])
      | .ub => (m, outs ++ ["ub"])
  ";".intercalate (ops.foldl step ([], [])).2

/-- line: `vec <init> <ops>` | `str <init> <ops>` | `rng <init> <ops>` | `map - <ops>` -/
def stlLine (line : String) : String :=
  match words line with
  | [kind, init, ops] =>
      let opl := ops.splitOn ";"
      (match kind with
       | "vec" => let r := runVec (csvInts init) opl false; s!"model={r.1}\tspec={r.2}"
       | "str" => let r := runVec (csvInts init) opl true; s!"model={r.1}\tspec={r.2}"
       | "rng" => let r := runRng (csvInts init) opl; s!"model={r.1}\tspec={r.2}"
       | "map" => let r := runMap opl; s!"model={r}\tspec={r}"
       | _ => "bad-op")
  | _ => "bad-op"

end ChaiVerif.Drv
