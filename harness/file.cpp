// Correspondence harness, mode `file` (property C19).
//   load <hex content>        -> <hex of load_file(path)>-  agree=<0|1> f=<eval_file outcome> e=<eval outcome>
//   use <ndirs> <ops>         -> per `u:f` op: <done|error|notfound:self|notfound:nested>/<ids evaluated so far>, joined by ';'
//        ops: w:d:f:k (write file f in dir d; k=0 ok, 1 evaluation error, 2 nested use of a missing file)  rm:d:f   u:f
#include <chaiscript/chaiscript.hpp>
#include <cstdlib>
#include <dirent.h>
#include <fstream>
#include <sys/stat.h>
#include <unistd.h>
#include "vcommon.hpp"
using namespace chaiscript;

namespace chaiscript_verif {
  struct Access {
    static std::string load_file(const std::string &p) { return ChaiScript_Basic::load_file(p); }
  };
}

static std::vector<std::string> g_log;
static void logfn(int x) { g_log.push_back(std::to_string(x)); }

static std::string g_dir;

static void write_file(const std::string &path, const std::string &content) {
  std::ofstream o(path, std::ios::binary | std::ios::trunc);
  o.write(content.data(), static_cast<std::streamsize>(content.size()));
}

static std::string show(const Boxed_Value &bv) {
  if (bv.is_undef()) return "undef";
  const Type_Info &ti = bv.get_type_info();
  if (ti.bare_equal(user_type<void>())) return "void";
  if (ti.bare_equal(user_type<int>())) return "int:" + std::to_string(boxed_cast<int>(bv));
  if (ti.bare_equal(user_type<bool>())) return std::string("bool:") + (boxed_cast<bool>(bv) ? "1" : "0");
  if (ti.bare_equal(user_type<std::string>())) return "str:" + vh::hex_encode(boxed_cast<std::string>(bv));
  if (ti.bare_equal(user_type<double>())) return "dbl:" + vh::hex64(vh::dbits(boxed_cast<double>(bv)));
  return std::string("other:") + ti.bare_name();
}

template<typename F>
static std::string outcome(F &&f) {
  g_log.clear();
  std::string r;
  try {
    r = "ok:" + show(f());
  } catch (const chaiscript::exception::eval_error &e) { r = "eval_error:" + vh::clean(e.reason, 60);
  } catch (const chaiscript::exception::file_not_found_error &e) { r = "file_not_found";
  } catch (const Boxed_Value &) { r = "thrown_boxed";
  } catch (int v) { r = "thrown_int:" + std::to_string(v);              // unboxed by an exception_specification
  } catch (double v) { r = "thrown_double:" + vh::hex64(vh::dbits(v));
  } catch (const std::string &v) { r = "thrown_string:" + vh::hex_encode(v);
  } catch (bool v) { r = std::string("thrown_bool:") + (v ? "1" : "0");
  } catch (const std::exception &e) { r = std::string("std:") + vh::clean(e.what(), 60);
  } catch (...) { r = "other"; }
  std::string l;
  for (auto &x : g_log) l += x + ",";
  return r + " log=" + l;
}

static std::string strip_bom(const std::string &s) {
  if (s.size() >= 3 && s[0] == '\xef' && s[1] == '\xbb' && s[2] == '\xbf') return s.substr(3);
  return s;
}

int main() {
  char tmpl[] = "/tmp/verif_file_XXXXXX";
  g_dir = mkdtemp(tmpl);
  std::string line;
  ChaiScript chai;
  chai.add(fun(&logfn), "log");
  const auto st = chai.get_state();
  const auto lo = chai.get_locals();
  while (std::getline(std::cin, line)) {
    auto w = vh::words(line);
    std::string out = "bad-op";
    if (w.size() == 2 && w[0] == "load") {
      const std::string content = vh::hex_decode(w[1]);
      const std::string path = g_dir + "/case.chai";
      write_file(path, content);
      std::string loaded;
      try { loaded = vh::hex_encode(chaiscript_verif::Access::load_file(path)); } catch (const std::exception &e) { loaded = std::string("EXC:") + e.what(); }
      const std::string f = outcome([&] { return chai.eval_file(path); });
      chai.set_locals(lo); chai.set_state(st);
      const std::string e = outcome([&] { return chai.eval(strip_bom(content), Exception_Handler(), path); });
      chai.set_locals(lo); chai.set_state(st);
      // every other overload of eval_file against the overload of eval it stands for: with an exception handler (script-thrown values are unboxed
      // to the listed C++ types), and typed (the result is cast)
      const auto spec = exception_specification<int, double, const std::string &, bool>();
      bool all = f == e;
      std::string extra;
      auto both = [&](const char *tag, auto &&ff, auto &&ee) {
        const std::string a = outcome(ff);
        chai.set_locals(lo); chai.set_state(st);
        const std::string b = outcome(ee);
        chai.set_locals(lo); chai.set_state(st);
        if (a != b) { all = false; extra += std::string(" ") + tag + ":f=" + a + " e=" + b; }
      };
      const std::string body = strip_bom(content);
      both("handler", [&] { return chai.eval_file(path, spec); }, [&] { return chai.eval(body, spec, path); });
      both("typed-int", [&] { return Boxed_Value(chai.eval_file<int>(path)); }, [&] { return Boxed_Value(chai.eval<int>(body, Exception_Handler(), path)); });
      both("typed-int-handler", [&] { return Boxed_Value(chai.eval_file<int>(path, spec)); }, [&] { return Boxed_Value(chai.eval<int>(body, spec, path)); });
      both("typed-string-handler", [&] { return Boxed_Value(chai.eval_file<std::string>(path, spec)); }, [&] { return Boxed_Value(chai.eval<std::string>(body, spec, path)); });
      out = loaded + "- agree=" + (all ? "1" : "0") + " f=" + f + " e=" + e + extra;
      unlink(path.c_str());
    } else if (w.size() == 3 && w[0] == "use") {
      const int nd = std::stoi(w[1]);
      std::vector<std::string> paths;
      for (int d = 0; d < nd; ++d) {
        const std::string dir = g_dir + "/d" + std::to_string(d) + "/";
        mkdir(dir.c_str(), 0700);
        paths.push_back(dir);
      }
      ChaiScript c2({}, paths);
      c2.add(fun(&logfn), "log");
      std::vector<std::string> evaluated;
      std::vector<std::string> created;
      out.clear();
      for (auto &op : vh::fields(w[2], ';')) {
        auto a = vh::fields(op, ':');
        if (a[0] == "w") {
          const std::string p = g_dir + "/d" + a[1] + "/f" + a[2] + ".chai";
          const std::string id = std::to_string((std::stoi(a[1]) + 1) * 10 + std::stoi(a[2]));
          std::string body = "log(" + id + ")\n";
          if (a[3] == "1") body += "this_function_does_not_exist_zz(1)\n";
          if (a[3] == "2") body += "use(\"missing_zz.chai\")\n";
          write_file(p, body);
          created.push_back(p);
        } else if (a[0] == "rm") {
          unlink((g_dir + "/d" + a[1] + "/f" + a[2] + ".chai").c_str());
        } else if (a[0] == "u") {
          g_log.clear();
          std::string r;
          try {
            c2.use("f" + a[1] + ".chai");
            r = "done";
          } catch (const chaiscript::exception::file_not_found_error &e) {
            r = e.filename == "f" + a[1] + ".chai" ? "notfound:self" : "notfound:nested";
          } catch (const chaiscript::exception::eval_error &) { r = "error";
          } catch (const Boxed_Value &) { r = "error";
          } catch (const std::exception &) { r = "error:std"; }
          for (auto &x : g_log) { const int v = std::stoi(x); evaluated.push_back(std::to_string(v / 10 - 1) + "." + std::to_string(v % 10)); }
          std::string ev;
          for (auto &x : evaluated) { if (!ev.empty()) ev += ","; ev += x; }
          if (!out.empty()) out += ";";
          out += r + "/" + ev;
        }
      }
      for (auto &p : created) unlink(p.c_str());
      for (auto &d : paths) rmdir(d.c_str());
    }
    std::cout << out << "\n" << std::flush;
  }
  rmdir(g_dir.c_str());
  return 0;
}
