// Harness, mode `lifetime` (property C11), built with clang++ -fsanitize=address,undefined.
//   <fault> <hex script>   -> evaluate the script on a fresh engine, then drop the script's top-level variables, then destroy the engine; report:
//      res=<ok|err ...> events=<violations seen by the instrumented class> cps=<checkpoint log: k:<live ids>;...> live_after_eval=<ids> live_after_locals=<ids>
//      live_after_release=<ids> live_after_engine=<ids> created=<n> destroyed=<n>
//   <fault>: index of the `boom()` call that throws std::runtime_error (1000000 = never)
// The instrumented class `T` registers every construction / destruction / member access in a global registry.
#include <chaiscript/chaiscript.hpp>
#include "vcommon.hpp"
#include <set>
#include <map>
#include <algorithm>
using namespace chaiscript;

struct Registry {
  std::set<int> live;
  std::map<int, int> vals;          // id -> tag (the value the object was created with; copies inherit it)
  std::set<int> dead;
  int next = 1;
  long created = 0, destroyed = 0;
  std::string events;
} R;

struct T {
  int id;
  int val;
  unsigned magic;
  explicit T(int v = 0) : id(R.next++), val(v), magic(0xA11CE) { R.live.insert(id); R.vals[id] = v; ++R.created; }
  T(const T &o) : id(R.next++), val(o.check("copy-from").val), magic(0xA11CE) { R.live.insert(id); R.vals[id] = val; ++R.created; }
  T(T &&o) noexcept : id(R.next++), val(o.val), magic(0xA11CE) { R.live.insert(id); R.vals[id] = val; ++R.created; }
  T &operator=(const T &o) { check("assign-to"); val = o.check("assign-from").val; return *this; }
  ~T() {
    if (magic != 0xA11CE || !R.live.count(id)) { R.events += "DOUBLE-DESTROY:" + std::to_string(id) + ","; }
    R.live.erase(id); R.dead.insert(id); ++R.destroyed; magic = 0xDEAD;
  }
  const T &check(const char *what) const {
    if (magic != 0xA11CE || !R.live.count(id)) { R.events += std::string("USE-AFTER-DESTROY:") + what + ","; }
    return *this;
  }
  int get() const { return check("get").val; }
  void set(int v) { check("set"); val = v; }          // (the tag in the registry stays the creation value)
  int ident() const { return check("ident").id; }
};

// an object with a tracked member, handed out by reference through attribute access
struct Holder {
  T inner;
  explicit Holder(int v) : inner(v) {}
};

static std::string ids(const std::set<int> &s) {
  // the TAGS of the live objects, sorted (object ids depend on how many temporaries the engine made)
  std::vector<int> t;
  for (int i : s) t.push_back(R.vals[i]);
  std::sort(t.begin(), t.end());
  std::string o;
  for (int v : t) { if (!o.empty()) o += ","; o += std::to_string(v); }
  return o;
}

static std::vector<std::shared_ptr<T>> g_kept;          // referrers held by C++ through the API
static T *g_owned = nullptr;                            // an object owned by C++ and handed out by reference
static std::string g_cps;
static long g_boom = 0, g_boom_at = 1000000;

int main() {
  std::string line;
  while (std::getline(std::cin, line)) {
    auto w = vh::words(line);
    if (w.size() != 2) { std::cout << "bad-op\n" << std::flush; continue; }
    R = Registry();
    g_cps.clear(); g_boom = 0; g_boom_at = std::stol(w[0]);
    const std::string src = vh::hex_decode(w[1]);
    std::string res = "ok", after_eval, after_locals, after_release;
    {
      T owned(900);
      g_owned = &owned;
      {
        ChaiScript chai;
        chai.add(user_type<T>(), "T");
        chai.add(constructor<T(int)>(), "T");
        chai.add(constructor<T(const T &)>(), "T");
        chai.add(fun(&T::get), "get");
        chai.add(fun(&T::set), "set");
        chai.add(fun(&T::ident), "ident");
        chai.add(fun([](T &a, const T &b) -> T & { a = b; return a; }), "=");
        chai.add(fun([](T t) { return t.get(); }), "by_value");
        chai.add(fun([](const T &t) { return t.get(); }), "by_cref");
        chai.add(fun([](T &t) { return t.get(); }), "by_ref");
        chai.add(fun([](T *t) { return t->get(); }), "by_ptr");
        chai.add(fun([](const std::shared_ptr<T> &t) { return t->get(); }), "by_sp");
        chai.add(fun([](const std::shared_ptr<T> &t) { g_kept.push_back(t); return static_cast<int>(g_kept.size()); }), "keep");
        chai.add(fun([]() { g_kept.clear(); }), "release_all");
        chai.add(fun([](std::shared_ptr<T> &p, int v) { p = std::make_shared<T>(v); }), "reseat");       // the script's variable now owns another object
        chai.add(fun([](std::shared_ptr<T> &p) { p.reset(); }), "unseat");
        chai.add(fun([](int v) { return T(v); }), "make_value");
        chai.add(fun([](int v) { return std::make_shared<T>(v); }), "make_sp");
        chai.add(fun([](int v) { return std::make_unique<T>(v); }), "make_up");
        chai.add(fun([]() -> T & { return *g_owned; }), "owned_ref");
        chai.add(fun([](const T &t) { return T(t.get() * 2); }), "doubled");
        chai.add(user_type<Holder>(), "Holder");
        chai.add(constructor<Holder(int)>(), "Holder");
        chai.add(constructor<Holder(const Holder &)>(), "Holder");
        chai.add(fun(&Holder::inner), "inner");
        chai.add(fun([](int v) { return Holder(v); }), "make_holder");
        chai.add(fun([](Holder &h) -> T & { return h.inner; }), "inner_of");
        chai.add(fun([](T &t) -> T & { return t; }), "same");                                             // a reference to its argument
        chai.add(fun([](const T &t) -> const T & { return t; }), "same_c");
        chai.add(fun([](int k) { g_cps += std::to_string(k) + ":" + ids(R.live) + ";"; }), "cp");
        chai.add(fun([](const Boxed_Value &) {}), "pr");
        chai.add(fun([]() { if (g_boom++ == g_boom_at) { throw std::runtime_error("boom"); } return 0; }), "boom");
        // a type the engine converts to T through a user conversion (a converted temporary is created for the call)
        struct Wrap { int v; };
        chai.add(user_type<Wrap>(), "Wrap");
        chai.add(fun([](int v) { return Wrap{v}; }), "Wrap");
        chai.add(type_conversion<Wrap, T>([](const Wrap &wv) { return T(wv.v); }));
        try {
          chai.eval(src);
        } catch (const chaiscript::exception::eval_error &e) { res = "err eval_error " + vh::clean(e.reason, 50);
        } catch (const Boxed_Value &) { res = "err thrown";
        } catch (const std::exception &e) { res = std::string("err std ") + vh::clean(e.what(), 30);
        } catch (...) { res = "err other"; }
        after_eval = ids(R.live);
        chai.set_locals({});
        after_locals = ids(R.live);
        g_kept.clear();
        after_release = ids(R.live);
      }
      // engine destroyed; `owned` still alive
      std::cout << "res=" << res << " events=" << R.events << " cps=" << g_cps << " live_after_eval=" << after_eval << " live_after_locals=" << after_locals
                << " live_after_release=" << after_release << " live_after_engine=" << ids(R.live) << " created=" << R.created << " destroyed=" << R.destroyed;
      g_owned = nullptr;
    }
    std::cout << " final_live=" << ids(R.live) << " events_end=" << R.events << "\n" << std::flush;
  }
  return 0;
}
