// Correspondence harness, mode `evalprog` (properties C02, C03, C04, C08, C09, C10): evaluate a generated
// program on a fresh engine and report everything observable.
//   <faultAt> <faultKind> <hints 0|1> <opt|noopt> <hex source>
// Output: res=<outcome> out=<pr log> nat=<callback log> shape=<stacks>/<call_params>/<depth> names=<top-level locals>
#include <chaiscript/chaiscript.hpp>
#include "vcommon.hpp"
using namespace chaiscript;

namespace chaiscript_verif {
  struct Access {
    static chaiscript::detail::Dispatch_Engine &engine(ChaiScript_Basic &c) { return c.m_engine; }
  };
}

struct Identity_Pass {
  template<typename T>
  auto optimize(eval::AST_Node_Impl_Ptr<T> p) { return p; }
};

struct NonStd { int x; };

static std::vector<std::string> g_out, g_nat;
static long g_count = 0, g_fault_at = 1000000;
static std::string g_fault_kind;

static std::string show(const Boxed_Value &bv, int depth = 3) {
  if (bv.is_undef()) return "undef";
  const Type_Info &ti = bv.get_type_info();
  if (ti.bare_equal(user_type<void>())) return "void";
  if (ti.bare_equal(user_type<bool>())) return boxed_cast<bool>(bv) ? "b1" : "b0";
  if (ti.bare_equal(user_type<std::string>())) return boxed_cast<std::string>(bv);      // string literals are spelled "s<k>"
  if (ti.is_arithmetic()) return "i" + std::to_string(Boxed_Number(bv).get_as<long long>());
  if (ti.bare_equal(user_type<std::vector<Boxed_Value>>())) {
    if (depth == 0) return "vec";
    std::string o = "[";
    bool first = true;
    for (auto &x : boxed_cast<const std::vector<Boxed_Value> &>(bv)) { if (!first) o += ","; o += show(x, depth - 1); first = false; }
    return o + "]";
  }
  if (ti.bare_equal(user_type<dispatch::Proxy_Function_Base>())) return "fn";
  if (ti.bare_equal(user_type<chaiscript::exception::eval_error>())) return "exc";
  if (ti.bare_equal(user_type<std::exception>()) || ti.bare_equal(user_type<std::runtime_error>()) || ti.bare_equal(user_type<std::out_of_range>())) return "exc";
  return std::string("other:") + ti.bare_name();
}

static Boxed_Value native(int k, const std::vector<Boxed_Value> &args) {
  std::string e = std::to_string(k) + ":";
  for (size_t i = 0; i < args.size(); ++i) e += (i ? "/" : "") + show(args[i]);
  g_nat.push_back(e);
  const long n = g_count++;
  if (n == g_fault_at) {
    if (g_fault_kind == "runtime") throw std::runtime_error("cb runtime");
    if (g_fault_kind == "range") throw std::out_of_range("cb range");
    if (g_fault_kind == "std") throw std::logic_error("cb logic");
    if (g_fault_kind == "nonstd") throw NonStd{1};
    if (g_fault_kind == "eval") throw chaiscript::exception::eval_error("cb eval_error");
    if (g_fault_kind == "boxed") throw Boxed_Value(777);
  }
  return Boxed_Value(k, true);
}

static std::string why(const std::string &r) {
  if (r.rfind("Can not find object", 0) == 0) return "cantFind";
  if (r.rfind("Condition not boolean", 0) == 0) return "condNotBool";
  if (r.find("redefined") != std::string::npos) return "redefined";
  if (r.rfind("Error, cannot assign to constant", 0) == 0 || r.find("cannot modify constant") != std::string::npos) return "assignConst";
  if (r.rfind("Error, cannot assign to temporary", 0) == 0) return "assignTemp";
  if (r.find("does not evaluate to a function") != std::string::npos) return "notFunction";
  if (r.rfind("Mismatched types", 0) == 0) return "mismatched";
  if (r.rfind("cb eval_error", 0) == 0) return "other";
  if (r.rfind("Unexpected `break`", 0) == 0) return "BREAK";
  if (r.rfind("Unexpected `continue`", 0) == 0) return "CONTINUE";
  return "dispatch";
}

// a user type with a registered conversion: arguments converted for a call are kept ("saves") until the outermost call returns
struct VSrc { int v; };
struct VDst { int v; };
static int g_dst_live = 0;
struct VDstCounted { int v; VDstCounted(int x) : v(x) { ++g_dst_live; } VDstCounted(const VDstCounted &o) : v(o.v) { ++g_dst_live; } ~VDstCounted() { --g_dst_live; } };

template<typename Chai>
static void setup(Chai &chai) {
  chai.add(fun([](const Boxed_Value &v) { g_out.push_back(show(v)); }), "pr");
  chai.add(user_type<VSrc>(), "VSrc");
  chai.add(user_type<VDstCounted>(), "VDst");
  chai.add(fun([](int v) { return VSrc{v}; }), "mk_src");
  chai.add(fun([](const VDstCounted &d) { return d.v; }), "take_dst");
  chai.add(fun([](const VDstCounted &d, int k) { return d.v + k; }), "take_dst");
  chai.add(type_conversion<VSrc, VDstCounted>([](const VSrc &s) { return VDstCounted(s.v); }));
  for (int k = 0; k < 4; ++k) {
    const std::string name = "cb" + std::to_string(k);
    chai.add(fun([k]() { return native(k, {}); }), name);
    chai.add(fun([k](const Boxed_Value &a) { return native(k, {a}); }), name);
    chai.add(fun([k](const Boxed_Value &a, const Boxed_Value &b) { return native(k, {a, b}); }), name);
  }
}

static std::string eval_error_res(const chaiscript::exception::eval_error &e) {
  const std::string w = why(e.reason);
  return w == "BREAK" ? "err break-outside-loop" : w == "CONTINUE" ? "err continue-outside-loop" : "err eval_error " + w;
}

// `ast` != nullptr: evaluate that (already parsed) tree instead of the text (property C08: a tree may be evaluated repeatedly)
template<typename Chai>
static std::string run_one(Chai &chai, const std::string &src, const AST_Node *ast = nullptr) {
  g_out.clear(); g_nat.clear(); g_count = 0;
  std::string res;
  try {
    Boxed_Value v = ast ? chai.eval(*ast) : chai.eval(src);
    res = "val " + show(v);
  } catch (const chaiscript::exception::eval_error &e) {
    res = eval_error_res(e);
  } catch (const Boxed_Value &bv) {
    if (ast && bv.get_type_info().bare_equal(user_type<chaiscript::exception::eval_error>())) {
      res = eval_error_res(boxed_cast<const chaiscript::exception::eval_error &>(bv));      // eval(AST_Node) boxes eval_errors
    } else {
      res = "thrown " + show(bv);
    }
  } catch (const chaiscript::exception::arithmetic_error &) { res = "cpp runtimeError";
  } catch (const std::out_of_range &) { res = "cpp outOfRange";
  } catch (const std::runtime_error &) { res = "cpp runtimeError";
  } catch (const std::exception &) { res = "cpp stdException";
  } catch (const NonStd &) { res = "cpp nonStd";
  } catch (...) { res = "cpp unknown"; }
  auto &eng = chaiscript_verif::Access::engine(chai);
  auto &sh = eng.get_stack_holder();
  std::string shape = "[";
  for (size_t i = 0; i < sh.stacks.size(); ++i) shape += (i ? ", " : "") + std::to_string(sh.stacks[i].size());
  shape += "]/" + std::to_string(sh.call_params.size()) + "/" + std::to_string(sh.call_depth);
  size_t saved = 0;
  for (auto &p : sh.call_params) saved += p.size();
  if (saved != 0) shape += " SAVED-PARAMS-LEFT=" + std::to_string(saved);
  // (g_dst_live is not reported: Type_Conversions keeps the last call's conversions until the next call on the thread; see checks/c09.py)
  std::string names;
  if (!sh.stacks.empty() && !sh.stacks[0].empty()) {
    for (auto &p : sh.stacks[0][0]) { if (!names.empty()) names += ","; names += p.first; }
  }
  std::string outs, nat;
  for (auto &x : g_out) { if (!outs.empty()) outs += ","; outs += x; }
  for (auto &x : g_nat) { if (!nat.empty()) nat += ","; nat += x; }
  // the engine must still work
  std::string alive;
  try { alive = chai.template eval<int>("1 + 1") == 2 ? "" : " ENGINE-BROKEN"; } catch (...) { alive = " ENGINE-BROKEN"; }
  return "res=" + res + " out=" + outs + " nat=" + nat + " shape=" + shape + " names=" + names + alive;
}

template<typename Chai>
struct Pool {
  std::unique_ptr<Chai> chai;
  typename Chai::State st;
  template<typename Make>
  Chai &get(Make &&make) {
    if (!chai) {
      chai = make();
      setup(*chai);
      st = chai->get_state();
    }
    return *chai;
  }
  // reuse the engine only if the evaluation left it in its resting state (that is the property under test)
  void release(const std::string &out) {
    if (out.find("shape=[1]/1/0 ") == std::string::npos || out.find("ENGINE-BROKEN") != std::string::npos || out.find("SAVED") != std::string::npos) {
      chai.reset();
    } else {
      chai->set_state(st);
      chai->set_locals({});
    }
  }
};

int main() {
  std::string line;
  Pool<ChaiScript> opt;
  Pool<ChaiScript_Basic> noopt;
  while (std::getline(std::cin, line)) {
    auto w = vh::words(line);
    if (w.size() != 5) { std::cout << "bad-op\n"; continue; }
    g_fault_at = std::stol(w[0]);
    g_fault_kind = w[1];
    chaiscript::detail::Dispatch_Engine::verif_ignore_hints() = (w[2] == "0");
    const std::string src = vh::hex_decode(w[4]);
    std::string out;
    // "<mode>3": parse once, evaluate the same tree three times from the same engine state; the three reports must be equal
    auto thrice = [&src](auto &chai, auto &pool) {
      std::string first;
      try {
        auto ast = chai.parse(src);
        std::string diff;
        for (int k = 0; k < 3; ++k) {
          const std::string o = run_one(chai, src, ast.get());
          if (k == 0) first = o; else if (o != first && diff.empty()) diff = " reeval=DIFF@" + std::to_string(k + 1) + ":" + o;
          pool.release(o);
          if (!pool.chai) break;
        }
        return first + (diff.empty() ? " reeval=same" : diff);
      } catch (const chaiscript::exception::eval_error &e) {
        return std::string("res=parse-error ") + vh::clean(e.reason, 60);
      }
    };
    if (w[3] == "noopt" || w[3] == "noopt3") {
      auto &chai = noopt.get([] {
        return std::make_unique<ChaiScript_Basic>(chaiscript::Std_Lib::library(),
                                                  std::make_unique<parser::ChaiScript_Parser<eval::Noop_Tracer, optimizer::Optimizer<Identity_Pass>>>());
      });
      if (w[3] == "noopt3") {
        out = thrice(chai, noopt);
      } else {
        out = run_one(chai, src);
        noopt.release(out);
      }
    } else {
      auto &chai = opt.get([] { return std::make_unique<ChaiScript>(); });
      if (w[3] == "opt3") {
        out = thrice(chai, opt);
      } else {
        out = run_one(chai, src);
        opt.release(out);
      }
    }
    std::cout << out << "\n" << std::flush;
  }
  return 0;
}
