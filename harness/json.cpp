// Correspondence harness, mode `json` (property C18).
//   parse <hex text>  ->  ok <canon(from_json t)> dump=<hex(to_json(from_json t))|D>- rt=<same|diff|error:..> idem=<same|diff|error:..>
//                      |  error:<class>
// canon: n | b0/b1 | i<int> | D<bits> | s<hex> | [a,b] | {<hexkey>:v,...}
#include <chaiscript/chaiscript.hpp>
#include <cmath>
#include "vcommon.hpp"
using namespace chaiscript;

static std::string canon(const Boxed_Value &bv, bool dbl_bits) {
  if (bv.is_undef() || bv.is_null()) return "n";
  const Type_Info &ti = bv.get_type_info();
  if (ti.bare_equal(user_type<bool>())) return boxed_cast<bool>(bv) ? "b1" : "b0";
  if (ti.bare_equal(user_type<std::string>())) return "s" + vh::hex_encode(boxed_cast<std::string>(bv));
  if (ti.bare_equal(user_type<std::vector<Boxed_Value>>())) {
    std::string o = "[";
    bool first = true;
    for (auto &x : boxed_cast<const std::vector<Boxed_Value> &>(bv)) { if (!first) o += ","; o += canon(x, dbl_bits); first = false; }
    return o + "]";
  }
  if (ti.bare_equal(user_type<std::map<std::string, Boxed_Value>>())) {
    std::string o = "{";
    bool first = true;
    for (auto &p : boxed_cast<const std::map<std::string, Boxed_Value> &>(bv)) { if (!first) o += ","; o += vh::hex_encode(p.first) + ":" + canon(p.second, dbl_bits); first = false; }
    return o + "}";
  }
  if (ti.bare_equal(user_type<double>())) return dbl_bits ? "D" + vh::hex64(vh::dbits(boxed_cast<double>(bv))) : std::string("D");
  if (ti.is_arithmetic()) return "i" + std::to_string(Boxed_Number(bv).get_as<std::int64_t>());
  return std::string("other:") + ti.bare_name();
}

// structural equality with the property's tolerance for doubles (1e-6 absolute or relative)
static bool same(const Boxed_Value &a, const Boxed_Value &b) {
  const bool an = a.is_undef() || a.is_null(), bn = b.is_undef() || b.is_null();
  if (an || bn) return an && bn;
  const Type_Info &ta = a.get_type_info(), &tb = b.get_type_info();
  if (ta.bare_equal(user_type<double>()) && tb.bare_equal(user_type<double>())) {
    const double x = boxed_cast<double>(a), y = boxed_cast<double>(b);
    if (x == y || (std::isnan(x) && std::isnan(y))) return true;
    const double d = std::fabs(x - y);
    return d <= 1e-6 || d <= 1e-6 * std::max(std::fabs(x), std::fabs(y));
  }
  if (ta.bare_equal(user_type<std::vector<Boxed_Value>>()) && tb.bare_equal(user_type<std::vector<Boxed_Value>>())) {
    auto &va = boxed_cast<const std::vector<Boxed_Value> &>(a); auto &vb = boxed_cast<const std::vector<Boxed_Value> &>(b);
    if (va.size() != vb.size()) return false;
    for (size_t i = 0; i < va.size(); ++i) if (!same(va[i], vb[i])) return false;
    return true;
  }
  if (ta.bare_equal(user_type<std::map<std::string, Boxed_Value>>()) && tb.bare_equal(user_type<std::map<std::string, Boxed_Value>>())) {
    auto &ma = boxed_cast<const std::map<std::string, Boxed_Value> &>(a); auto &mb = boxed_cast<const std::map<std::string, Boxed_Value> &>(b);
    if (ma.size() != mb.size()) return false;
    auto ia = ma.begin(); auto ib = mb.begin();
    for (; ia != ma.end(); ++ia, ++ib) if (ia->first != ib->first || !same(ia->second, ib->second)) return false;
    return true;
  }
  return canon(a, true) == canon(b, true);
}

static bool nonfinite(const Boxed_Value &a) {
  if (a.is_undef() || a.is_null()) return false;
  const Type_Info &ta = a.get_type_info();
  if (ta.bare_equal(user_type<double>())) return !std::isfinite(boxed_cast<double>(a));
  if (ta.bare_equal(user_type<std::vector<Boxed_Value>>())) { for (auto &x : boxed_cast<const std::vector<Boxed_Value> &>(a)) if (nonfinite(x)) return true; }
  if (ta.bare_equal(user_type<std::map<std::string, Boxed_Value>>())) { for (auto &p : boxed_cast<const std::map<std::string, Boxed_Value> &>(a)) if (nonfinite(p.second)) return true; }
  return false;
}

static std::string errclass() {
  try { throw; }
  catch (const std::out_of_range &) { return "error:LEAK:out_of_range"; }
  catch (const std::runtime_error &) { return "error:runtime_error"; }
  catch (const chaiscript::exception::eval_error &e) { return "error:eval_error:" + vh::clean(e.reason, 40); }
  catch (const std::exception &e) { return std::string("error:std:") + vh::clean(e.what(), 40); }
  catch (...) { return "error:other"; }
}

int main() {
  ChaiScript chai;
  const auto from_json = chai.eval<std::function<Boxed_Value(const std::string &)>>("from_json");
  const auto to_json = chai.eval<std::function<std::string(const Boxed_Value &)>>("to_json");
  std::string line;
  while (std::getline(std::cin, line)) {
    auto w = vh::words(line);
    std::string out = "bad-op";
    if (w.size() == 2 && w[0] == "parse") {
      const std::string text = vh::hex_decode(w[1]);
      try {
        Boxed_Value v = from_json(text);
        out = "ok " + canon(v, false);
        std::string dumped;
        try {
          dumped = to_json(v);
          const bool hasD = out.find('D') != std::string::npos;
          out += " dump=" + (hasD ? std::string("D") : vh::hex_encode(dumped)) + "-";
          if (nonfinite(v)) { out += " rt=nonfinite"; } else
          try {
            Boxed_Value v2 = from_json(dumped);
            out += same(v, v2) ? " rt=same" : " rt=diff";
            try {
              Boxed_Value v3 = from_json(to_json(v2));
              out += same(v2, v3) ? " idem=same" : " idem=diff";
            } catch (...) { out += " idem=" + errclass(); }
          } catch (...) { out += " rt=" + errclass(); }
        } catch (...) { out += " dump=" + errclass(); }
      } catch (...) {
        out = errclass();
      }
    }
    std::cout << out << "\n" << std::flush;
  }
  return 0;
}
