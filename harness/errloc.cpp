// Correspondence harness, mode `errloc` (property C20).
//   eval <file1> <hex1> [<file2> <hex2> ...]   evaluate the chunks in order on a fresh engine; on eval_error report where it points
//        -> ok | err why=<class> top=<file>:<line>:<col>:<node type> calls=<file>:<line>:<col>|...   (Fun_Call entries of call_stack, innermost first)
//   pos <hex text> <ops>                       drive the parser's Position over the text: i = ++, d = --   -> <line> <col> after every op, comma separated
#include <chaiscript/chaiscript.hpp>
#include "vcommon.hpp"
using namespace chaiscript;
using Parser = parser::ChaiScript_Parser<eval::Noop_Tracer, optimizer::Optimizer_Default>;

namespace chaiscript_verif {
  struct Access {
    static std::string drive(const std::string &text, const std::string &ops) {
      typename Parser::Position p(text.data(), text.data() + text.size());
      std::string out;
      size_t idx = 0;
      for (char c : ops) {
        if (c == 'i') { ++p; if (idx < text.size()) ++idx; }
        else if (c == 'd') { if (idx == 0) { out += "underflow,"; continue; } --p; --idx; }
        out += std::to_string(p.line) + " " + std::to_string(p.col) + ",";
      }
      return out;
    }
  };
}

static std::string why(const std::string &r) {
  if (r.rfind("Can not find object", 0) == 0) return "cantFind";
  if (r.find("does not evaluate to a function") != std::string::npos) return "notFunction";
  return "dispatch";
}

int main() {
  std::string line;
  while (std::getline(std::cin, line)) {
    auto w = vh::words(line);
    std::string out = "bad-op";
    if (w.size() == 3 && w[0] == "pos") {
      out = chaiscript_verif::Access::drive(vh::hex_decode(w[1]), w[2]);
    } else if (w.size() >= 3 && w[0] == "eval" && w.size() % 2 == 1) {
      ChaiScript chai;
      chai.add(fun([](const Boxed_Value &) {}), "pr");
      out = "ok";
      try {
        for (size_t i = 1; i + 1 < w.size(); i += 2) {
          chai.eval(vh::hex_decode(w[i + 1]), Exception_Handler(), w[i]);
        }
      } catch (const chaiscript::exception::eval_error &e) {
        out = "err why=" + why(e.reason);
        if (!e.call_stack.empty()) {
          const auto &t = e.call_stack.front();
          out += " top=" + t.filename() + ":" + std::to_string(t.start().line) + ":" + std::to_string(t.start().column) + ":" + ast_node_type_to_string(t.identifier);
        } else {
          out += " top=" + e.filename + ":" + std::to_string(e.start_position.line) + ":" + std::to_string(e.start_position.column) + ":none";
        }
        out += " calls=";
        bool first = true;
        for (const auto &t : e.call_stack) {
          if (t.identifier == AST_Node_Type::Fun_Call) {
            out += (first ? "" : "|") + t.filename() + ":" + std::to_string(t.start().line) + ":" + std::to_string(t.start().column);
            first = false;
          }
        }
      } catch (const std::exception &e) {
        out = std::string("other ") + vh::clean(e.what(), 60);
      } catch (...) {
        out = "other";
      }
    }
    std::cout << out << "\n" << std::flush;
  }
  return 0;
}
