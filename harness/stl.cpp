// Correspondence harness, mode `stl` (property C12): operation sequences on the built-in Vector,
// string, Map and range views, each step through script syntax on the real engine.
//   vec <init csv|-> <op;op;...>   ops: idx:i front back push:v pop ins:pos:v era:pos rsz:n:v clr size empty
//   str <init csv|-> <ops>         ops: idx:i push:c ins:pos:c era:pos sub:pos:len clr size empty
//   rng <init csv|-> <ops>         ops: empty popf popb front back      (range over an unmodified Vector)
//   map - <ops>                    ops: idx:k at:k set:k:v cnt:k era:k size empty clr   (keys "k<k>")
// Output: per step `<ok[ val v| size n| bool b| undef| sub csv]|err:<class>>|<contents>` joined by ';' (rng: no contents)
#include <chaiscript/chaiscript.hpp>
#include "vcommon.hpp"
using namespace chaiscript;

static std::vector<std::string> split(const std::string &s, char c) { return vh::fields(s, c); }

static std::string show_val(const Boxed_Value &r) {
  if (r.is_undef()) return "ok undef";
  const Type_Info &ti = r.get_type_info();
  if (ti.bare_equal(user_type<void>())) return "ok";
  if (ti.bare_equal(user_type<bool>())) return std::string("ok bool ") + (boxed_cast<bool>(r) ? "1" : "0");
  if (ti.bare_equal(user_type<int>())) return "ok val " + std::to_string(boxed_cast<int>(r));
  if (ti.bare_equal(user_type<char>())) return "ok val " + std::to_string(static_cast<int>(static_cast<unsigned char>(boxed_cast<char>(r))));
  if (ti.bare_equal(user_type<size_t>())) return "ok size " + std::to_string(boxed_cast<size_t>(r));
  if (ti.bare_equal(user_type<std::string>())) {
    std::string s = boxed_cast<std::string>(r), o;
    for (unsigned char ch : s) { if (!o.empty()) o += ","; o += std::to_string(ch); }
    return "ok sub " + (o.empty() ? std::string("-") : o);
  }
  return "ok";
}

template<typename F>
static std::string guarded(F &&f) {
  try {
    return f();
  } catch (const std::out_of_range &) { return "err:out_of_range";
  } catch (const std::range_error &) { return "err:range_error";
  } catch (const std::length_error &) { return "err:length_error";
  } catch (const std::bad_alloc &) { return "err:bad_alloc";
  } catch (const chaiscript::exception::eval_error &e) { return "err:eval_error:" + vh::clean(e.reason, 50);
  } catch (const std::exception &e) { return std::string("err:std:") + vh::clean(e.what(), 50);
  } catch (...) { return "err:other"; }
}

static std::string vec_contents(ChaiScript &chai) {
  auto &v = chai.eval<std::vector<Boxed_Value> &>("v");
  std::string o;
  for (auto &b : v) { if (!o.empty()) o += ","; o += b.is_undef() ? "undef" : std::to_string(boxed_cast<int>(b)); }
  return o.empty() ? "-" : o;
}
static std::string str_contents(ChaiScript &chai) {
  auto &v = chai.eval<std::string &>("v");
  std::string o;
  for (unsigned char ch : v) { if (!o.empty()) o += ","; o += std::to_string(ch); }
  return o.empty() ? "-" : o;
}
static std::string map_contents(ChaiScript &chai) {
  auto &m = chai.eval<std::map<std::string, Boxed_Value> &>("v");
  // keys are "k<n>": sort numerically for the canonical form
  std::vector<std::pair<long, std::string>> items;
  for (auto &p : m) items.emplace_back(std::stol(p.first.substr(1)), p.second.is_undef() ? "undef" : std::to_string(boxed_cast<int>(p.second)));
  std::sort(items.begin(), items.end());
  std::string o;
  for (auto &p : items) { if (!o.empty()) o += ","; o += "k" + std::to_string(p.first) + "=" + p.second; }
  return o.empty() ? "-" : o;
}

int main() {
  ChaiScript chai;
  // const views: indexing them selects the `const Container &` overload of []
  chai.add(fun([](const std::vector<Boxed_Value> &v) -> const std::vector<Boxed_Value> & { return v; }), "cview");
  chai.add(fun([](const std::string &v) -> const std::string & { return v; }), "cview");
  const auto st = chai.get_state();
  const auto lo = chai.get_locals();
  std::string line;
  while (std::getline(std::cin, line)) {
    auto w = vh::words(line);
    if (w.size() != 3) { std::cout << "bad-op\n"; continue; }
    const std::string kind = w[0];
    std::string out;
    try {
      if (kind == "vec" || kind == "rng") {
        chai.eval("var v = Vector()");
        if (w[1] != "-") for (auto &x : split(w[1], ',')) chai.eval("v.push_back(" + x + ")");
        if (kind == "rng") chai.eval("var r = range(v)");
      } else if (kind == "str") {
        chai.eval("var v = string()");
        if (w[1] != "-") for (auto &x : split(w[1], ',')) chai.eval("v.push_back(char(" + x + "))");
      } else {
        chai.eval("var v = Map()");
      }
      for (auto &op : split(w[2], ';')) {
        auto a = split(op, ':');
        std::string src;
        const std::string &o = a[0];
        if (kind == "rng") {
          src = o == "empty" ? "r.empty()" : o == "popf" ? "r.pop_front()" : o == "popb" ? "r.pop_back()" : o == "front" ? "r.front()" : "r.back()";
        } else if (kind == "map") {
          const std::string key = a.size() > 1 ? "\"k" + a[1] + "\"" : "";
          src = o == "idx" ? "v[" + key + "]" : o == "at" ? "v.at(" + key + ")" : o == "set" ? "v[" + key + "] = " + a[2] + "; 0;"
              : o == "cnt" ? "v.count(" + key + ")" : o == "era" ? "v.erase(" + key + ")" : o == "size" ? "v.size()" : o == "empty" ? "v.empty()" : "v.clear()";
        } else {
          const bool s = kind == "str";
          auto val = [&](const std::string &x) { return s ? "char(" + x + ")" : x; };
          if (o == "srch") {
            static const char *names[] = {"find", "rfind", "find_first_of", "find_last_of", "find_first_not_of", "find_last_not_of"};
            std::string needle = "fun(){ var s = string(); ";
            if (a[3] != "e") for (auto &c : split(a[3], '.')) needle += "s.push_back(char(" + c + ")); ";
            needle += "s }()";
            const std::string nm = names[std::stoi(a[2])];
            src = a[1] == "1" ? "v." + nm + "(" + needle + ")" : nm + "(v, " + needle + ", size_t(" + a[4] + "))";
          } else
          src = o == "idx" ? "v[" + a[1] + "]" : o == "cidx" ? "cview(v)[" + a[1] + "]" : o == "front" ? "v.front()" : o == "back" ? "v.back()" : o == "push" ? "v.push_back(" + val(a[1]) + ")"
              : o == "pop" ? "v.pop_back()" : o == "ins" ? "v.insert_at(" + a[1] + ", " + val(a[2]) + ")" : o == "era" ? "v.erase_at(" + a[1] + ")"
              : o == "rsz" ? "v.resize(" + a[1] + ", " + val(a[2]) + ")" : o == "sub" ? "v.substr(" + a[1] + ", " + a[2] + ")"
              : o == "clr" ? "v.clear()" : o == "size" ? "v.size()" : "v.empty()";
        }
        std::string r = guarded([&] {
          Boxed_Value bv = chai.eval(src);
          if (kind == "map" && o == "set") return std::string("ok");
          return show_val(bv);
        });
        if (!out.empty()) out += ";";
        out += r;
        if (kind != "rng") out += "|" + (kind == "vec" ? vec_contents(chai) : kind == "str" ? str_contents(chai) : map_contents(chai));
      }
    } catch (const std::exception &e) {
      out += ";HARNESS:" + vh::clean(e.what(), 80);
    }
    chai.set_locals(lo);
    chai.set_state(st);
    std::cout << out << "\n" << std::flush;
  }
  return 0;
}
