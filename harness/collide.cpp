// Brute-force search for identifiers whose FNV-1a hash equals that of a keyword (property C16, known
// finding KEYWORD_BY_HASH_ONLY).  usage: collide <basis> <prime> <maxlen> <target>...   prints "<hash> <ident>"
#include <cstdint>
#include <cstdio>
#include <cstdlib>
#include <string>
#include <thread>
#include <unordered_set>
#include <vector>
#include <mutex>
static const char ALPHA[] = "abcdefghijklmnopqrstuvwxyz_0123456789";
static const int NA = 37;
static std::mutex mu;
int main(int argc, char **argv) {
  if (argc < 5) return 2;
  const uint32_t basis = static_cast<uint32_t>(strtoul(argv[1], nullptr, 10)), prime = static_cast<uint32_t>(strtoul(argv[2], nullptr, 10));
  const int maxlen = atoi(argv[3]);
  std::unordered_set<uint32_t> targets;
  for (int i = 4; i < argc; ++i) targets.insert(static_cast<uint32_t>(strtoul(argv[i], nullptr, 10)));
  // a tiny bitmap filter for speed
  std::vector<bool> filt(1u << 20);
  for (auto t : targets) filt[t & ((1u << 20) - 1)] = true;
  const unsigned nth = std::max(1u, std::thread::hardware_concurrency());
  std::vector<std::thread> th;
  // first char restricted to letters/_ (identifier start); split work on the first two characters
  for (unsigned t = 0; t < nth; ++t) th.emplace_back([&, t] {
    for (int len = 1; len <= maxlen; ++len) {
      std::vector<int> idx(len, 0);
      for (int first = 0; first < 27; ++first) {
        if (static_cast<unsigned>(first) % nth != t) continue;
        idx.assign(len, 0);
        idx[0] = first;
        while (true) {
          uint32_t h = basis;
          for (int k = 0; k < len; ++k) h = (h ^ static_cast<uint32_t>(ALPHA[idx[k]])) * prime;
          if (filt[h & ((1u << 20) - 1)] && targets.count(h)) {
            std::string s;
            for (int k = 0; k < len; ++k) s.push_back(ALPHA[idx[k]]);
            std::lock_guard<std::mutex> g(mu);
            printf("%u %s\n", h, s.c_str());
          }
          int p = len - 1;
          while (p >= 1 && ++idx[p] == NA) { idx[p] = 0; --p; }
          if (p < 1) break;
        }
      }
    }
  });
  for (auto &x : th) x.join();
  return 0;
}
