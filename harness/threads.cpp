// Harness, mode `threads` (property C13), built with clang++ -fsanitize=thread: T threads use ONE engine at once.
//   line:  <prelude hex>|<ops of thread 0>|<ops of thread 1>|...       ops separated by ','
//     e:<hex script>     eval, expect an int -> recorded          c:<name>      eval "<name>()" -> recorded
//     f:<name>:<int>     add(fun(() -> int), name)                 g:<name>:<int>  add_global(var(int), name)
//     k:<name>:<int>     add_global_const                          u:<hex path>  use(file)  (the file calls bump())
//     o:<n>:<int>        add an overload of `shared_ov` and of `+` for the parameter type Tag<n>
//     G:<name>:<int>     eval "global <name> = <int>" (recorded for the final read)   H:<name>   eval "global <name>" (the same name, from another thread)
//     s                  get_state()                               y             std::this_thread::yield()
//   output: t0=<results>;t1=<results>;...|bumps=<n>|final=<main thread reads every registered name>
// A data race makes ThreadSanitizer abort the process (TSAN_OPTIONS=halt_on_error=1): the driver then knows the workload.
#include <chaiscript/chaiscript.hpp>
#include "vcommon.hpp"
#include <atomic>
#include <thread>
using namespace chaiscript;

static std::atomic<int> g_bumps{0};

// distinct parameter types, so that many overloads of ONE name can be registered without conflict
template<int N> struct Tag { int v = N; };
template<int N> static void add_overloads(ChaiScript &chai, int n, int val) {
  if (n == N) {
    chai.add(fun([val](Tag<N>) { return val; }), "shared_ov");
    chai.add(fun([val](Tag<N>, Tag<N>) { return val; }), "+");
    return;
  }
  if constexpr (N > 0) { add_overloads<N - 1>(chai, n, val); }
}

static std::string eval_int(ChaiScript &c, const std::string &src) {
  try { return std::to_string(c.eval<int>(src)); }
  catch (const chaiscript::exception::eval_error &e) { return "E"; }
  catch (const chaiscript::exception::bad_boxed_cast &) { return "B"; }
  catch (const std::exception &) { return "X"; }
}

int main() {
  std::string line;
  while (std::getline(std::cin, line)) {
    auto parts = vh::fields(line, '|');
    if (parts.size() < 2) { std::cout << "bad-op\n" << std::flush; continue; }
    g_bumps = 0;
    std::string out;
    {
      ChaiScript chai;
      chai.add(fun([]() { return ++g_bumps; }), "bump");
      try { chai.eval(vh::hex_decode(parts[0])); } catch (const std::exception &e) { out = std::string("prelude-error ") + vh::clean(e.what(), 60); }
      const size_t T = parts.size() - 1;
      std::vector<std::string> results(T);
      std::vector<std::string> registered;
      std::mutex reg_m;
      std::atomic<int> ready{0};
      std::vector<std::thread> ths;
      for (size_t t = 0; t < T; ++t) {
        ths.emplace_back([&, t] {
          ++ready;
          while (ready.load() < static_cast<int>(T)) { std::this_thread::yield(); }       // start together
          std::string &res = results[t];
          for (auto &op : vh::fields(parts[t + 1], ',')) {
            auto f = vh::fields(op, ':');
            if (f.empty() || f[0].empty()) continue;
            std::string r;
            bool rec = false;
            try {
              if (f[0] == "e" && f.size() == 2) { r = eval_int(chai, vh::hex_decode(f[1])); rec = true; }
              else if (f[0] == "c" && f.size() == 2) { r = eval_int(chai, f[1] + "()"); rec = true; }
              else if (f[0] == "f" && f.size() == 3) { const int v = std::stoi(f[2]); chai.add(fun([v]() { return v; }), f[1]); std::lock_guard<std::mutex> l(reg_m); registered.push_back(f[1] + "()"); }
              else if (f[0] == "g" && f.size() == 3) { chai.add_global(var(std::stoi(f[2])), f[1]); std::lock_guard<std::mutex> l(reg_m); registered.push_back(f[1]); }
              else if (f[0] == "G" && f.size() == 3) { chai.eval("global " + f[1] + " = " + f[2]); std::lock_guard<std::mutex> l(reg_m); registered.push_back(f[1]); }   // script `global x = v`
              else if (f[0] == "H" && f.size() == 2) { chai.eval("global " + f[1]); }                                                  // other threads declare the same name at the same time
              else if (f[0] == "k" && f.size() == 3) { chai.add_global_const(const_var(std::stoi(f[2])), f[1]); std::lock_guard<std::mutex> l(reg_m); registered.push_back(f[1]); }
              else if (f[0] == "o" && f.size() == 3) { add_overloads<63>(chai, std::stoi(f[1]) % 64, std::stoi(f[2])); }     // another overload of shared_ov and of +
              else if (f[0] == "u" && f.size() == 2) { chai.use(vh::hex_decode(f[1])); }
              else if (f[0] == "s") { auto st = chai.get_state(); (void)st; }
              else if (f[0] == "y") { std::this_thread::yield(); }
            } catch (const std::exception &e) { r = "X"; rec = true; }
            if (rec) { if (!res.empty()) res += ","; res += r; }
          }
        });
      }
      for (auto &th : ths) th.join();
      for (size_t t = 0; t < T; ++t) out += (t ? ";" : "") + std::string("t") + std::to_string(t) + "=" + results[t];
      out += "|bumps=" + std::to_string(g_bumps.load()) + "|final=";
      std::sort(registered.begin(), registered.end());
      bool first = true;
      for (auto &n : registered) { out += (first ? "" : ",") + n + ":" + eval_int(chai, n); first = false; }
    }
    std::cout << out << "\n" << std::flush;
  }
  return 0;
}
