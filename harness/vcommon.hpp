// Shared helpers for the correspondence harness (C++17, no dependencies beyond libstdc++).
#pragma once
#include <cstdint>
#include <cstdio>
#include <cstring>
#include <iostream>
#include <sstream>
#include <string>
#include <vector>

namespace vh {
inline std::vector<std::string> words(const std::string &s) {
  std::vector<std::string> out;
  std::istringstream is(s);
  std::string w;
  while (is >> w) out.push_back(w);
  return out;
}
inline std::vector<std::string> fields(const std::string &s, char sep = '\t') {
  std::vector<std::string> out;
  std::string cur;
  for (char c : s) {
    if (c == sep) { out.push_back(cur); cur.clear(); } else cur.push_back(c);
  }
  out.push_back(cur);
  return out;
}
inline std::string hex_encode(const std::string &s) {
  static const char *d = "0123456789abcdef";
  std::string o;
  for (unsigned char c : s) { o.push_back(d[c >> 4]); o.push_back(d[c & 15]); }
  return o;
}
inline int hv(char c) { return c <= '9' ? c - '0' : (c | 32) - 'a' + 10; }
inline std::string hex_decode(const std::string &s) {
  std::string o;
  if (s == "-") return o;
  for (size_t i = 0; i + 1 < s.size(); i += 2) o.push_back(static_cast<char>(hv(s[i]) * 16 + hv(s[i + 1])));
  return o;
}
inline std::string hex64(std::uint64_t v) {
  char buf[32];
  snprintf(buf, sizeof buf, "%016llx", static_cast<unsigned long long>(v));
  return buf;
}
inline std::uint64_t dbits(double d) { std::uint64_t u; std::memcpy(&u, &d, 8); return u; }
inline double bitsd(std::uint64_t u) { double d; std::memcpy(&d, &u, 8); return d; }
// first line of a what() string, tabs/newlines removed
inline std::string clean(std::string s, size_t maxlen = 120) {
  for (auto &c : s) if (c == '\n' || c == '\t' || c == '\r') c = ' ';
  if (s.size() > maxlen) s.resize(maxlen);
  return s;
}
} // namespace vh
