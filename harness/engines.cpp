// Correspondence harness, mode `engines` (property C14): a history of engine creations, evaluations on long-lived threads and destructions.
//   one line = ops separated by ';' :
//     new <E> <slot> [th]   construct engine E on thread th (default main) by placement new in pool slot <slot> (the same address is reused by later engines); slot 9 = plain heap
//     del <E> [th]          destroy engine E on thread th (default main)
//     setl <th> <E> <name> <int>   on thread th (0 = main, 1.. = worker): assign the local `name`, declaring it if needed
//     getl <th> <E> <name>         -> its value, or undef
//     setg <th> <E> <name> <int>   global
//     getg <th> <E> <name>
//     def  <th> <E> <name> <int>   define a function `name()` returning the int -> ok | err
//     call <th> <E> <name>         -> value | undef
//     conv <th> <E> <k>            register the user conversion CSrc<k> -> CDst<k> (k = 0..2) in engine E -> ok | err (already there)
//     useconv <th> <E> <k>         call a function that needs that conversion -> 10 + k | undef
//   output: the results of getl/getg/def/call, comma separated
#include <chaiscript/chaiscript.hpp>
#include "vcommon.hpp"
#include <condition_variable>
#include <functional>
#include <future>
#include <map>
#include <queue>
#include <thread>
using namespace chaiscript;

// user types with a conversion an engine may or may not have registered (property: conversions are per engine)
template<int K> struct CSrc { int v; };
template<int K> struct CDst { int v; };
template<int K> static void add_conv_api(ChaiScript &c) {
  const std::string k = std::to_string(K);
  c.add(fun([]() { return CSrc<K>{K + 10}; }), "cmk" + k);
  c.add(fun([](const CDst<K> &d) { return d.v; }), "ctake" + k);
}
template<int K> static void add_conv(ChaiScript &c) { c.add(type_conversion<CSrc<K>, CDst<K>>([](const CSrc<K> &s) { return CDst<K>{s.v}; })); }

struct Worker {
  std::thread th;
  std::mutex m;
  std::condition_variable cv;
  std::queue<std::packaged_task<std::string()>> q;
  bool stop = false;
  Worker() : th([this] { loop(); }) {}
  void loop() {
    for (;;) {
      std::packaged_task<std::string()> t;
      {
        std::unique_lock<std::mutex> l(m);
        cv.wait(l, [this] { return stop || !q.empty(); });
        if (stop && q.empty()) return;
        t = std::move(q.front());
        q.pop();
      }
      t();
    }
  }
  std::string run(std::function<std::string()> f) {
    std::packaged_task<std::string()> t(std::move(f));
    auto fut = t.get_future();
    { std::lock_guard<std::mutex> l(m); q.push(std::move(t)); }
    cv.notify_one();
    return fut.get();
  }
  ~Worker() { { std::lock_guard<std::mutex> l(m); stop = true; } cv.notify_one(); th.join(); }
};

static std::string eval_int(ChaiScript &c, const std::string &src) {
  try {
    return std::to_string(c.eval<int>(src));
  } catch (const chaiscript::exception::eval_error &) { return "undef";
  } catch (const chaiscript::exception::bad_boxed_cast &) { return "undef";
  } catch (const std::exception &) { return "undef"; }
}

// what an engine answers to questions whose operands are the process-wide shared objects (the `true` / `false` / void singletons of
// boxed_value.hpp, results of built-in comparisons) and whether those objects carry attributes: one token, no separators of the protocol
static std::string probe(ChaiScript &c) {
  static const char *qs[] = {"to_string(true)", "to_string(false)", "to_string(1 < 2)", "to_string(2 == 2)", "to_string(1 > 2)", "to_string(!true)", "to_string(!(1 == 2))",
                             "to_string((1 == 1) && true)", "to_string(false || (3 != 3))", "var n0 = 0; if (1 < 2) { n0 = 1 } else { n0 = 2 }; to_string(n0)",
                             "var b0 = true; b0 = false; b0 = true; to_string(b0)", "var k0 = 0; while (k0 < 3) { ++k0 }; to_string(k0)",
                             "to_string(get_var_attr(true, \"ATTR\").is_var_undef())", "to_string(get_var_attr(false, \"ATTR\").is_var_undef())",
                             "to_string(get_var_attr(2 == 2, \"ATTR\").is_var_undef())", "var vv0 = [1]; to_string(get_var_attr(vv0.clear(), \"ATTR\").is_var_undef())",
                             "to_string(true.is_var_const())", "to_string((1 < 2).is_var_const())", "to_string(1)", "to_string(1.5)", "to_string(\"a\" == \"a\")"};
  std::string out;
  for (const char *q : qs) {
    std::string a;
    try { a = c.eval<std::string>(q); } catch (const std::exception &) { a = "E"; } catch (...) { a = "X"; }
    out += (out.empty() ? "" : "|") + a;
    try { c.set_locals({}); } catch (...) {}
  }
  return out;
}

int main() {
  static const int NSLOT = 3;
  alignas(64) static unsigned char pool[NSLOT][sizeof(ChaiScript)];
  Worker workers[3];                                            // long-lived: they outlive every engine of every history
  std::string line;
  while (std::getline(std::cin, line)) {
    std::map<std::string, std::pair<ChaiScript *, int>> engines;     // name -> (object, slot)
    std::string out;
    auto on = [&](int th, std::function<std::string()> f) { return th == 0 ? f() : workers[(th - 1) % 3].run(std::move(f)); };
    for (auto &op : vh::fields(line, ';')) {
      auto w = vh::words(op);
      if (w.empty()) continue;
      std::string r;
      bool has_result = false;
      if (w[0] == "new" && (w.size() == 3 || w.size() == 4)) {
        const int slot = std::stoi(w[2]);
        const int th = w.size() == 4 ? std::stoi(w[3]) : 0;                 // the thread that runs the constructor
        ChaiScript *p = nullptr;
        on(th, [&]() -> std::string {
          p = slot < NSLOT ? new (pool[slot]) ChaiScript() : new ChaiScript();
          add_conv_api<0>(*p); add_conv_api<1>(*p); add_conv_api<2>(*p);
          return "";
        });
        engines[w[1]] = {p, slot};
      } else if (w[0] == "del" && (w.size() == 2 || w.size() == 3)) {
        auto it = engines.find(w[1]);
        const int th = w.size() == 3 ? std::stoi(w[2]) : 0;                 // the thread that runs the destructor
        if (it != engines.end()) {
          on(th, [&]() -> std::string { if (it->second.second < NSLOT) it->second.first->~ChaiScript(); else delete it->second.first; return ""; });
          engines.erase(it);
        }
      } else if ((w[0] == "probe" && w.size() == 3) || (w[0] == "script" && w.size() == 4)) {
        const int th = std::stoi(w[1]);
        auto it = engines.find(w[2]);
        has_result = true;
        if (it == engines.end()) r = "noengine";
        else {
          ChaiScript &c = *it->second.first;
          if (w[0] == "probe") r = on(th, [&]() -> std::string { return probe(c); });
          else {
            const std::string src = vh::hex_decode(w[3]);
            r = on(th, [&]() -> std::string {
              try { c.eval(src); return "ran"; } catch (const chaiscript::exception::eval_error &) { return "rejected"; } catch (const std::exception &) { return "threw"; } catch (...) { return "threw-other"; }
            });
          }
        }
      } else if (w.size() >= 4) {
        const int th = std::stoi(w[1]);
        auto it = engines.find(w[2]);
        if (it == engines.end()) { r = "noengine"; has_result = true; }
        else {
          ChaiScript &c = *it->second.first;
          const std::string name = w[3];
          const std::string val = w.size() > 4 ? w[4] : "0";
          has_result = w[0] != "setl" && w[0] != "setg";
          r = on(th, [&]() -> std::string {
            if (w[0] == "setl") {
              try { c.eval(name + " = " + val); } catch (const chaiscript::exception::eval_error &) {
                try { c.eval("var " + name + " = " + val); } catch (const chaiscript::exception::eval_error &) { return "err"; }
              }
              return "";
            }
            if (w[0] == "getl" || w[0] == "getg") return eval_int(c, name);
            if (w[0] == "setg") { try { c.eval("global " + name + " = " + val); } catch (const chaiscript::exception::eval_error &) { return "err"; } return ""; }
            if (w[0] == "def") { try { c.eval("def " + name + "() { " + val + " }"); return "ok"; } catch (const chaiscript::exception::eval_error &) { return "err"; } }
            if (w[0] == "call") return eval_int(c, name + "()");
            if (w[0] == "conv") {                 // register conversion <name> (0..2) in this engine
              try { if (name == "0") add_conv<0>(c); else if (name == "1") add_conv<1>(c); else add_conv<2>(c); return "ok"; }
              catch (const std::exception &) { return "err"; }
            }
            if (w[0] == "useconv") return eval_int(c, "ctake" + name + "(cmk" + name + "())");
            return "badop";
          });
        }
      }
      if (has_result) { if (!out.empty()) out += ","; out += r; }
    }
    for (auto &e : engines) { if (e.second.second < NSLOT) e.second.first->~ChaiScript(); else delete e.second.first; }
    std::cout << out << "\n" << std::flush;
  }
  return 0;
}
