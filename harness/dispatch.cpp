// Correspondence harness, modes `cast` and `dispatch` (property C06).
//   cast <value-kind> <param-id>            -> ok <received> | bad_boxed_cast | other:<class>
//   disp <fid,fid,...> <value-kind>[,<value-kind>]   -> entered <fid> <received...> | error:<class>
//   arity <fun|var|pair|ctor|method|attr|script> <k> <n>   one callable with k int parameters called with n int arguments -> entered <k> <received…> | error [AFTER-ENTERING …]
//   catalogue                               -> one line per function: "<fid> <param descriptors>" ; per value kind: "<kind> <type> <const> <store>"
// Value kinds and the function catalogue are fixed tables below; every function logs what it received.
#include <chaiscript/chaiscript.hpp>
#include "vcommon.hpp"
using namespace chaiscript;

struct Base { int tag; explicit Base(int t = 1) : tag(t) {} virtual ~Base() = default; };
struct Derived : Base { explicit Derived(int t = 2) : Base(t) {} };
struct Other { int tag = 3; };
// multiple inheritance: Second is NOT at offset 0 of Both, a conversion to it must adjust the pointer
struct First { int a; explicit First(int t = 1) : a(t) {} virtual ~First() = default; };
struct Second { int b; explicit Second(int t = 2) : b(t) {} virtual ~Second() = default; };
struct Both : First, Second { explicit Both(int t = 50) : First(t), Second(t + 1000) {} };

static std::string g_log;
template<typename T> static std::string desc(const T &v);
template<> std::string desc<int>(const int &v) { return "int:" + std::to_string(v); }
template<> std::string desc<double>(const double &v) { return "double:" + std::to_string(static_cast<long long>(v * 4)); }
template<> std::string desc<bool>(const bool &v) { return std::string("bool:") + (v ? "1" : "0"); }
template<> std::string desc<std::string>(const std::string &v) { return "string:" + v; }
template<> std::string desc<Base>(const Base &v) { return "base:" + std::to_string(v.tag); }
template<> std::string desc<Derived>(const Derived &v) { return "derived:" + std::to_string(v.tag); }
template<> std::string desc<Other>(const Other &v) { return "other:" + std::to_string(v.tag); }
template<> std::string desc<Second>(const Second &v) { return "second:" + std::to_string(v.b); }
static std::string descbv(const Boxed_Value &bv) { return std::string("boxed:") + (bv.is_undef() ? "undef" : bv.get_type_info().bare_name()); }

// ---- parameter forms: each P<id> has a type and a way to describe the received argument
#define PARAMS(X) \
  X(0, int, "int val", desc<int>(a)) X(1, const int &, "int cref", desc<int>(a)) X(2, int &, "int ref", desc<int>(a)) \
  X(3, int *, "int ptr", desc<int>(*a)) X(4, const int *, "int cptr", desc<int>(*a)) \
  X(5, double, "double val", desc<double>(a)) X(6, const double &, "double cref", desc<double>(a)) X(7, double &, "double ref", desc<double>(a)) \
  X(8, bool, "bool val", desc<bool>(a)) X(9, std::string, "string val", desc<std::string>(a)) X(10, const std::string &, "string cref", desc<std::string>(a)) \
  X(11, std::string &, "string ref", desc<std::string>(a)) \
  X(12, Base, "base val", desc<Base>(a)) X(13, const Base &, "base cref", desc<Base>(a)) X(14, Base &, "base ref", desc<Base>(a)) \
  X(15, Base *, "base ptr", desc<Base>(*a)) X(16, const Base *, "base cptr", desc<Base>(*a)) \
  X(17, std::shared_ptr<Base>, "base sp", desc<Base>(*a)) X(18, std::shared_ptr<const Base>, "base spc", desc<Base>(*a)) \
  X(19, const Derived &, "derived cref", desc<Derived>(a)) X(20, Derived &, "derived ref", desc<Derived>(a)) \
  X(21, const Other &, "other cref", desc<Other>(a)) X(22, Boxed_Value, "boxedValue", descbv(a)) X(23, const Boxed_Number &, "boxedNumber", descbv(a.bv)) \
  X(24, long, "long val", "long:" + std::to_string(a)) X(25, float, "float val", "float:" + std::to_string(static_cast<long long>(a * 4))) \
  X(26, const Second &, "second cref", desc<Second>(a)) X(27, Second &, "second ref", desc<Second>(a)) X(28, Second *, "second ptr", desc<Second>(*a)) \
  X(29, std::shared_ptr<Second>, "second sp", desc<Second>(*a))

static const int NPARAM = 30;

template<int I> struct PT;
#define X(I, T, NAME, D) template<> struct PT<I> { using type = T; static std::string name() { return NAME; } static std::string d(T a) { return D; } };
PARAMS(X)
#undef X

// one-parameter functions: fid = param id; two-parameter functions: fid = 100 + index in PAIRS
static const int PAIRS[][2] = {{0, 0}, {5, 5}, {13, 0}, {14, 5}, {10, 0}, {22, 0}, {0, 22}, {1, 6}, {16, 10}, {23, 23}, {2, 13}, {24, 0}};
static const int NPAIRS = 12;

template<int I> static void reg1(ChaiScript &chai) {
  chai.add(fun([](typename PT<I>::type a) { g_log = std::to_string(I) + " " + PT<I>::d(static_cast<typename PT<I>::type>(a)); }), "f");
}
template<int I, int J, int F> static void reg2(ChaiScript &chai) {
  chai.add(fun([](typename PT<I>::type a, typename PT<J>::type b) {
    g_log = std::to_string(F) + " " + PT<I>::d(static_cast<typename PT<I>::type>(a)) + " " + PT<J>::d(static_cast<typename PT<J>::type>(b)); }), "f");
}

static std::string sig_of(const dispatch::Proxy_Function_Base &f) {
  std::string s;
  const auto &ts = f.get_param_types();
  for (size_t i = 1; i < ts.size(); ++i) {
    const Type_Info &t = ts[i];
    s += std::string(t.is_undef() ? "undef" : t.name()) + "/" + (t.is_undef() ? "" : t.bare_name()) + (t.is_const() ? "c" : "") + (t.is_reference() ? "r" : "") + (t.is_pointer() ? "p" : "") + (t.is_arithmetic() ? "a" : "") + ";";
  }
  return s;
}
static std::map<std::string, int> g_sig2fid;

static void reg(ChaiScript &chai, int fid);
static void reg_and_note(ChaiScript &chai, int fid) {
  // register under a scratch engine first to learn the signature string of this fid
  if (std::none_of(g_sig2fid.begin(), g_sig2fid.end(), [&](auto &p) { return p.second == fid; })) {
    ChaiScript tmp;
    reg(tmp, fid);
    auto st = tmp.get_state();
    auto it = st.engine_state.m_functions.find(std::string("f"));
    g_sig2fid[sig_of(*it->second->at(0))] = fid;
  }
  reg(chai, fid);
}

static void reg(ChaiScript &chai, int fid) {
  switch (fid) {
#define R(I) case I: reg1<I>(chai); break;
    R(0) R(1) R(2) R(3) R(4) R(5) R(6) R(7) R(8) R(9) R(10) R(11) R(12) R(13) R(14) R(15) R(16) R(17) R(18) R(19) R(20) R(21) R(22) R(23) R(24) R(25) R(26) R(27) R(28) R(29)
#undef R
    case 100: reg2<0, 0, 100>(chai); break; case 101: reg2<5, 5, 101>(chai); break; case 102: reg2<13, 0, 102>(chai); break;
    case 103: reg2<14, 5, 103>(chai); break; case 104: reg2<10, 0, 104>(chai); break; case 105: reg2<22, 0, 105>(chai); break;
    case 106: reg2<0, 22, 106>(chai); break; case 107: reg2<1, 6, 107>(chai); break; case 108: reg2<16, 10, 108>(chai); break;
    case 109: reg2<23, 23, 109>(chai); break; case 110: reg2<2, 13, 110>(chai); break; case 111: reg2<24, 0, 111>(chai); break;
    default: throw std::runtime_error("fid");
  }
}

// ---- value kinds
static int gi = 41; static const int gci = 42; static Base gb(11); static const Base gcb(12); static Derived gd(13); static std::string gs = "gs"; static Both gboth(52); static const Both gcboth(54);
static const char *KINDS[] = {"int_var", "int_const", "int_ref", "int_cref", "double_var", "double_const", "bool_var", "string_var", "string_const",
                              "string_ref", "base_var", "base_const", "base_ref", "base_cref", "base_sp", "base_spc", "base_ptr", "derived_var", "derived_const",
                              "derived_ref", "derived_sp", "other_var", "long_var", "float_var", "undef", "both_var", "both_ref", "both_sp", "both_ptr", "both_cref"};
static const int NKINDS = 30;
static Boxed_Value make(const std::string &k) {
  if (k == "int_var") return var(7); if (k == "int_const") return const_var(8); if (k == "int_ref") return var(std::ref(gi)); if (k == "int_cref") return var(std::cref(gci));
  if (k == "double_var") return var(2.5); if (k == "double_const") return const_var(3.5); if (k == "bool_var") return var(true);
  if (k == "string_var") return var(std::string("sv")); if (k == "string_const") return const_var(std::string("sc")); if (k == "string_ref") return var(std::ref(gs));
  if (k == "base_var") return var(Base(21)); if (k == "base_const") return const_var(Base(22)); if (k == "base_ref") return var(std::ref(gb)); if (k == "base_cref") return var(std::cref(gcb));
  if (k == "base_sp") return var(std::make_shared<Base>(23)); if (k == "base_spc") return var(std::shared_ptr<const Base>(std::make_shared<Base>(24))); if (k == "base_ptr") return var(&gb);
  if (k == "derived_var") return var(Derived(31)); if (k == "derived_const") return const_var(Derived(32)); if (k == "derived_ref") return var(std::ref(gd));
  if (k == "derived_sp") return var(std::make_shared<Derived>(33)); if (k == "other_var") return var(Other());
  if (k == "both_var") return var(Both(51)); if (k == "both_ref") return var(std::ref(gboth)); if (k == "both_sp") return var(std::make_shared<Both>(53));
  if (k == "both_ptr") return var(&gboth); if (k == "both_cref") return var(std::cref(gcboth));
  if (k == "long_var") return var(9L); if (k == "float_var") return var(1.5f); if (k == "undef") return Boxed_Value();
  throw std::runtime_error("kind " + k);
}

static std::string errclass() {
  try { throw; }
  catch (const chaiscript::exception::bad_boxed_cast &) { return "bad_boxed_cast"; }
  catch (const chaiscript::exception::dispatch_error &) { return "error:dispatch_error"; }
  catch (const chaiscript::exception::arity_error &) { return "error:arity_error"; }
  catch (const chaiscript::exception::eval_error &e) { return "error:eval_error:" + vh::clean(e.reason, 50); }
  catch (const chaiscript::detail::exception::bad_any_cast &) { return "error:bad_any_cast"; }
  catch (const std::exception &e) { return std::string("error:std:") + vh::clean(e.what(), 50); }
  catch (...) { return "error:other"; }
}

template<int I> static std::string cast1(ChaiScript &chai, const Boxed_Value &v) {
  try { return "ok " + PT<I>::d(chai.boxed_cast<typename PT<I>::type>(v)); } catch (...) { return errclass(); }
}
static std::string cast(ChaiScript &chai, int pid, const Boxed_Value &v) {
  switch (pid) {
#define R(I) case I: return cast1<I>(chai, v);
    R(0) R(1) R(2) R(3) R(4) R(5) R(6) R(7) R(8) R(9) R(10) R(11) R(12) R(13) R(14) R(15) R(16) R(17) R(18) R(19) R(20) R(21) R(22) R(23) R(24) R(25) R(26) R(27) R(28) R(29)
#undef R
  }
  return "bad-op";
}

// ---- bind: logging functions of 1..5 parameters, all int (ri<L>) or int / string alternating (rm<L>)
static std::string iv(int v) { return "i" + std::to_string(v); }
static std::string sv(const std::string &v) { return "s" + v; }
static void note_rec(const std::string &x) { g_log += (g_log.empty() ? "" : " ") + std::string("rec(") + x + ")"; }
static void reg_bind_api(ChaiScript &chai) {
  chai.add(fun([](int a) { note_rec(iv(a)); }), "ri1");
  chai.add(fun([](int a, int b) { note_rec(iv(a) + "," + iv(b)); }), "ri2");
  chai.add(fun([](int a, int b, int c) { note_rec(iv(a) + "," + iv(b) + "," + iv(c)); }), "ri3");
  chai.add(fun([](int a, int b, int c, int d) { note_rec(iv(a) + "," + iv(b) + "," + iv(c) + "," + iv(d)); }), "ri4");
  chai.add(fun([](int a, int b, int c, int d, int e) { note_rec(iv(a) + "," + iv(b) + "," + iv(c) + "," + iv(d) + "," + iv(e)); }), "ri5");
  chai.add(fun([](int a) { note_rec(iv(a)); }), "rm1");
  chai.add(fun([](int a, const std::string &b) { note_rec(iv(a) + "," + sv(b)); }), "rm2");
  chai.add(fun([](int a, const std::string &b, int c) { note_rec(iv(a) + "," + sv(b) + "," + iv(c)); }), "rm3");
  chai.add(fun([](int a, const std::string &b, int c, const std::string &d) { note_rec(iv(a) + "," + sv(b) + "," + iv(c) + "," + sv(d)); }), "rm4");
  chai.add(fun([](int a, const std::string &b, int c, const std::string &d, int e) { note_rec(iv(a) + "," + sv(b) + "," + iv(c) + "," + sv(d) + "," + iv(e)); }), "rm5");
}

// ---- arity probes: `arity <form> <k> <n>`: one callable with k int parameters, called with n int arguments
static void ar0() { g_log = "0"; }
static void ar1(int a) { g_log = "1 " + std::to_string(a); }
static void ar2(int a, int b) { g_log = "2 " + std::to_string(a) + " " + std::to_string(b); }
static void ar3(int a, int b, int c) { g_log = "3 " + std::to_string(a) + " " + std::to_string(b) + " " + std::to_string(c); }
struct ArW {
  ArW() { g_log = "0"; }
  explicit ArW(int a) { g_log = "1 " + std::to_string(a); }
  ArW(int a, int b) { g_log = "2 " + std::to_string(a) + " " + std::to_string(b); }
  ArW(int a, int b, int c) { g_log = "3 " + std::to_string(a) + " " + std::to_string(b) + " " + std::to_string(c); }
  void m0() { g_log = "0"; }
  void m1(int a) { g_log = "1 " + std::to_string(a); }
  void m2(int a, int b) { g_log = "2 " + std::to_string(a) + " " + std::to_string(b); }
  void m3(int a, int b, int c) { g_log = "3 " + std::to_string(a) + " " + std::to_string(b) + " " + std::to_string(c); }
  int attr = 7;
};
static std::string arity_probe(const std::string &form, int k, int n) {
  ChaiScript chai;
  std::string args;
  for (int j = 0; j < n; ++j) args += (j ? ", " : "") + std::to_string(10 + j);
  std::string src;
  auto addfun = [&](const std::string &name, int kk) {
    switch (kk) { case 0: chai.add(fun(&ar0), name); break; case 1: chai.add(fun(&ar1), name); break; case 2: chai.add(fun(&ar2), name); break; default: chai.add(fun(&ar3), name); }
  };
  if (form == "fun") { addfun("g", k); src = "g(" + args + ")"; }
  else if (form == "var") { addfun("g", k); src = "var h = g; h(" + args + ")"; }
  else if (form == "pair") { addfun("g", k); addfun("g", (k + 2) % 4); src = "g(" + args + ")"; }        // overloaded name: Dispatch_Function
  else if (form == "ctor") {
    chai.add(user_type<ArW>(), "ArW");
    switch (k) { case 0: chai.add(constructor<ArW()>(), "ArW"); break; case 1: chai.add(constructor<ArW(int)>(), "ArW"); break;
                 case 2: chai.add(constructor<ArW(int, int)>(), "ArW"); break; default: chai.add(constructor<ArW(int, int, int)>(), "ArW"); }
    src = "ArW(" + args + ")";
  } else if (form == "method" || form == "attr") {
    chai.add(user_type<ArW>(), "ArW");
    chai.add(constructor<ArW()>(), "ArW");
    if (form == "attr") { chai.add(fun(&ArW::attr), "m"); }
    else switch (k) { case 0: chai.add(fun(&ArW::m0), "m"); break; case 1: chai.add(fun(&ArW::m1), "m"); break; case 2: chai.add(fun(&ArW::m2), "m"); break; default: chai.add(fun(&ArW::m3), "m"); }
    chai.eval("var w = ArW()");
    src = "w.m(" + args + ")";
  } else if (form == "script") {
    std::string ps, body = "note(" + std::to_string(k);
    for (int j = 0; j < k; ++j) { ps += (j ? ", p" : "p") + std::to_string(j); }
    chai.add(fun([](int kk) { g_log = std::to_string(kk); }), "note");
    chai.eval("def s(" + ps + ") { note(" + std::to_string(k) + ") }");
    src = "s(" + args + ")";
  } else return "bad-op";
  g_log.clear();
  try { chai.eval(src); return g_log.empty() ? "returned-without-entering" : "entered " + g_log; }
  catch (...) { return g_log.empty() ? "error" : "error AFTER-ENTERING " + g_log; }
}

int main() {
  std::string line;
  while (std::getline(std::cin, line)) {
    auto w = vh::words(line);
    std::string out = "bad-op";
    try {
      if (w.size() == 1 && w[0] == "catalogue") {
        out.clear();
        // the descriptors the model needs, printed from the real Type_Info flags
        ChaiScript chai;
        chai.add(base_class<Base, Derived>());
        chai.add(base_class<First, Both>());
        chai.add(base_class<Second, Both>());
        for (int k = 0; k < NKINDS; ++k) {
          Boxed_Value v = make(KINDS[k]);
          const Type_Info &ti = v.get_type_info();
          out += std::string("kind ") + KINDS[k] + " bare=" + (ti.is_undef() ? "undef" : ti.bare_name()) + " const=" + (v.is_const() ? "1" : "0") + " arith=" + (ti.is_arithmetic() ? "1" : "0")
              + " ref=" + (v.is_ref() ? "1" : "0") + " ptrnull=" + (v.get_ptr() == nullptr ? "1" : "0") + "|";
        }
      } else if (w.size() == 3 && w[0] == "cast") {
        ChaiScript chai;
        chai.add(base_class<Base, Derived>());
        chai.add(base_class<First, Both>());
        chai.add(base_class<Second, Both>());
        out = cast(chai, std::stoi(w[2]), make(w[1]));
      } else if (w.size() == 3 && w[0] == "disp") {
        ChaiScript chai;
        chai.add(base_class<Base, Derived>());
        chai.add(base_class<First, Both>());
        chai.add(base_class<Second, Both>());
        for (auto &f : vh::fields(w[1], ',')) reg_and_note(chai, std::stoi(f));
        std::string order;
        {
          auto st = chai.get_state();
          auto it = st.engine_state.m_functions.find(std::string("f"));
          for (auto &pf : *it->second) { if (!order.empty()) order += ","; order += std::to_string(g_sig2fid.at(sig_of(*pf))); }
        }
        std::vector<Boxed_Value> args;
        for (auto &k : vh::fields(w[2], ',')) args.push_back(make(k));
        g_log.clear();
        try {
          chai.add(var(args.at(0)), "a0");
          if (args.size() > 1) chai.add(var(args.at(1)), "a1");
          chai.eval(args.size() > 1 ? "f(a0, a1)" : "f(a0)");
          out = "entered " + g_log;
        } catch (...) { out = errclass(); if (!g_log.empty()) out += " AFTER-ENTERING " + g_log; }
        out = "order=" + order + " " + out;
      } else if (w.size() == 4 && w[0] == "arity") {
        out = arity_probe(w[1], std::stoi(w[2]), std::stoi(w[3]));
      } else if (w.size() == 4 && w[0] == "bind") {
        // bind <pattern over b/_> <number of call arguments> <mixed 0|1>
        const std::string pat = w[1];
        const int n = std::stoi(w[2]);
        const bool mixed = w[3] == "1";
        auto is_str = [&](size_t i) { return mixed && i % 2 == 1; };
        std::vector<size_t> holes;
        std::string src = std::string("bind(") + (mixed ? "rm" : "ri") + std::to_string(pat.size());
        for (size_t i = 0; i < pat.size(); ++i) {
          if (pat[i] == '_') { holes.push_back(i); src += ", _"; }
          else src += is_str(i) ? ", \"b" + std::to_string(i) + "\"" : ", " + std::to_string(100 + i);
        }
        src += ")(";
        for (int j = 0; j < n; ++j) {
          const bool str = static_cast<size_t>(j) < holes.size() && is_str(holes[static_cast<size_t>(j)]);
          src += (j ? ", " : "") + (str ? "\"a" + std::to_string(j) + "\"" : std::to_string(1 + j));
        }
        src += ")";
        ChaiScript chai;
        reg_bind_api(chai);
        g_log.clear();
        try { chai.eval(src); out = g_log.empty() ? "returned-without-entering" : "entered " + g_log; }
        catch (...) { out = "error"; if (!g_log.empty()) out += " AFTER-ENTERING " + g_log; }
      }
    } catch (const std::exception &e) { out = std::string("HARNESS:") + vh::clean(e.what(), 80); }
    std::cout << out << "\n" << std::flush;
  }
  return 0;
}
