// Differential harness, mode `constprobe` (property C07): const sources of every kind are registered from C++, a script snippet attacks one of
// them, and the C++ side then looks at the object itself.
//   <hex script>      -> <snapshot before>|<snapshot after>|<script outcome: ok / err <class>>|<log of C++ functions entered>
// The engine is fresh for every line.  The script sees:
//   globals (add_global_const): gci (int 41), gcd (double 2.5), gcb (bool true), gcs (string "gs"), gcv (vector [1,2,3]), gcm (map {"a":1}), gco (Obj 7)
//   const_var values:           cvi, cvs, cvv, cvo                     (added with add(const_var(...), name))
//   C++ objects by const ref:   cri, crs, crv, cro   by const pointer: cpo   shared_ptr<const>: spo
//   functions returning const:  ret_ci() -> const int&, ret_cs() -> const std::string&, ret_co() -> const Obj&, ret_cv() -> const vector&
//   mutable C++ parameter forms: mut_i(int&), mut_ip(int*), mut_s(std::string&), mut_v(vector&), mut_o(Obj&), mut_op(Obj*), mut_osp(shared_ptr<Obj>)
//   Obj methods: get() const, set(int), inc()
#include <chaiscript/chaiscript.hpp>
#include "vcommon.hpp"
using namespace chaiscript;

struct Obj {
  int v;
  explicit Obj(int t = 0) : v(t) {}
  int get() const { return v; }
  void set(int x) { v = x; }
  void inc() { ++v; }
};

// a derived class whose mutating interface lives in a registered base class (base_class<PBase, PDer>)
struct PBase { int pv; explicit PBase(int t = 0) : pv(t) {} void pset(int x) { pv = x; } int pget() const { return pv; } };
struct PDer : PBase { explicit PDer(int t = 0) : PBase(t) {} };

using Vec = std::vector<Boxed_Value>;
using Map = std::map<std::string, Boxed_Value>;

static std::string g_log;

static std::string show(const Boxed_Value &bv) {
  try {
    const Type_Info &ti = bv.get_type_info();
    if (ti.bare_equal(user_type<int>())) return std::to_string(boxed_cast<int>(bv));
    if (ti.bare_equal(user_type<double>())) return std::to_string(static_cast<long long>(boxed_cast<double>(bv) * 4)) + "q";
    if (ti.bare_equal(user_type<bool>())) return boxed_cast<bool>(bv) ? "T" : "F";
    if (ti.bare_equal(user_type<std::string>())) return "'" + boxed_cast<const std::string &>(bv) + "'";
    if (ti.bare_equal(user_type<Obj>())) return "O" + std::to_string(boxed_cast<const Obj &>(bv).v);
    if (ti.bare_equal(user_type<Vec>())) { std::string o = "["; for (auto &x : boxed_cast<const Vec &>(bv)) o += show(x) + ";"; return o + "]"; }
    if (ti.bare_equal(user_type<Map>())) { std::string o = "{"; for (auto &x : boxed_cast<const Map &>(bv)) o += x.first + "=" + show(x.second) + ";"; return o + "}"; }
  } catch (...) { return "?"; }
  return "?";
}

struct World {
  // objects owned by C++
  int ri = 51; std::string rs = "rs"; Vec rv{var(1), var(2)}; Obj ro{61}; Obj po{62};
  std::shared_ptr<const Obj> spo = std::make_shared<Obj>(63);
  int reti = 71; std::string rets = "rets"; Obj reto{72}; Vec retv{var(5), var(6)};
  PDer dr{81}; PDer dp{82}; PDer dret{83}; std::shared_ptr<const PDer> dsp = std::make_shared<PDer>(84);
  Boxed_Value gcder = const_var(PDer(85));
  // values handed to the engine (kept here so that we can look at them afterwards)
  Boxed_Value gci = const_var(41), gcd = const_var(2.5), gcb = const_var(true), gcs = const_var(std::string("gs")),
              gcv = const_var(Vec{var(1), var(2), var(3)}), gcm = const_var(Map{{"a", var(1)}}), gco = const_var(Obj(7)),
              cvi = const_var(42), cvs = const_var(std::string("cs")), cvv = const_var(Vec{var(4), var(5)}), cvo = const_var(Obj(8));

  std::string snapshot() const {
    std::string o;
    o += "gci=" + show(gci) + " gcd=" + show(gcd) + " gcb=" + show(gcb) + " gcs=" + show(gcs) + " gcv=" + show(gcv) + " gcm=" + show(gcm) + " gco=" + show(gco);
    o += " cvi=" + show(cvi) + " cvs=" + show(cvs) + " cvv=" + show(cvv) + " cvo=" + show(cvo);
    o += " cri=" + std::to_string(ri) + " crs='" + rs + "' crv=" + show(const_var(rv)) + " cro=O" + std::to_string(ro.v) + " cpo=O" + std::to_string(po.v) + " spo=O" + std::to_string(spo->v);
    o += " cdr=D" + std::to_string(dr.pv) + " cdp=D" + std::to_string(dp.pv) + " dret=D" + std::to_string(dret.pv) + " dsp=D" + std::to_string(dsp->pv)
         + " gcder=D" + std::to_string(boxed_cast<const PDer &>(gcder).pv);
    o += " reti=" + std::to_string(reti) + " rets='" + rets + "' reto=O" + std::to_string(reto.v) + " retv=" + show(const_var(retv));
    return o;
  }
};

int main() {
  std::string line;
  while (std::getline(std::cin, line)) {
    auto w = vh::words(line);
    if (w.size() != 1) { std::cout << "bad-op\n"; continue; }
    const std::string src = vh::hex_decode(w[0]);
    g_log.clear();
    World W;
    std::string outcome = "ok";
    std::string before, after;
    {
      ChaiScript chai;
      chai.add(user_type<Obj>(), "Obj");
      chai.add(constructor<Obj(int)>(), "Obj");
      chai.add(constructor<Obj(const Obj &)>(), "Obj");
      chai.add(fun(&Obj::get), "get");
      chai.add(fun(&Obj::set), "set");
      chai.add(fun(&Obj::inc), "inc");
      chai.add(fun(&Obj::v), "v");
      chai.add(fun([](const Obj &o) { return "O" + std::to_string(o.v); }), "to_string");
      chai.add(user_type<PBase>(), "PBase"); chai.add(user_type<PDer>(), "PDer");
      chai.add(base_class<PBase, PDer>());
      chai.add(constructor<PDer(int)>(), "PDer");
      chai.add(constructor<PDer(const PDer &)>(), "PDer");
      chai.add(fun(&PBase::pset), "pset"); chai.add(fun(&PBase::pget), "pget"); chai.add(fun(&PBase::pv), "pv");
      chai.add(fun([](PBase &x) { g_log += "mut_pb,"; x.pv = 999; }), "mut_pb");
      chai.add(fun([](PBase *x) { g_log += "mut_pbp,"; x->pv = 999; }), "mut_pbp");
      chai.add(fun([](PDer &x) { g_log += "mut_pd,"; x.pv = 999; }), "mut_pd");
      chai.add(var(std::cref(W.dr)), "cdr"); chai.add(var(static_cast<const PDer *>(&W.dp)), "cdp"); chai.add(var(W.dsp), "dsp");
      chai.add_global_const(W.gcder, "gcder");
      chai.add(fun([&W]() -> const PDer & { return W.dret; }), "ret_cder");
      chai.add_global_const(W.gci, "gci"); chai.add_global_const(W.gcd, "gcd"); chai.add_global_const(W.gcb, "gcb"); chai.add_global_const(W.gcs, "gcs");
      chai.add_global_const(W.gcv, "gcv"); chai.add_global_const(W.gcm, "gcm"); chai.add_global_const(W.gco, "gco");
      chai.add(W.cvi, "cvi"); chai.add(W.cvs, "cvs"); chai.add(W.cvv, "cvv"); chai.add(W.cvo, "cvo");
      chai.add(var(std::cref(W.ri)), "cri"); chai.add(var(std::cref(W.rs)), "crs"); chai.add(var(std::cref(W.rv)), "crv"); chai.add(var(std::cref(W.ro)), "cro");
      chai.add(var(static_cast<const Obj *>(&W.po)), "cpo");
      chai.add(var(W.spo), "spo");
      chai.add(fun([&W]() -> const int & { return W.reti; }), "ret_ci");
      chai.add(fun([&W]() -> const std::string & { return W.rets; }), "ret_cs");
      chai.add(fun([&W]() -> const Obj & { return W.reto; }), "ret_co");
      chai.add(fun([&W]() -> const Vec & { return W.retv; }), "ret_cv");
      chai.add(fun([](int &x) { g_log += "mut_i,"; x = 999; }), "mut_i");
      chai.add(fun([](int *x) { g_log += "mut_ip,"; *x = 999; }), "mut_ip");
      chai.add(fun([](double &x) { g_log += "mut_d,"; x = 9.75; }), "mut_d");
      chai.add(fun([](bool &x) { g_log += "mut_b,"; x = !x; }), "mut_b");
      chai.add(fun([](std::string &x) { g_log += "mut_s,"; x += "!"; }), "mut_s");
      chai.add(fun([](Vec &x) { g_log += "mut_v,"; x.push_back(var(999)); }), "mut_v");
      chai.add(fun([](Map &x) { g_log += "mut_m,"; x["zz"] = var(999); }), "mut_m");
      chai.add(fun([](Obj &x) { g_log += "mut_o,"; x.v = 999; }), "mut_o");
      chai.add(fun([](Obj *x) { g_log += "mut_op,"; x->v = 999; }), "mut_op");
      chai.add(fun([](std::shared_ptr<Obj> x) { g_log += "mut_osp,"; x->v = 999; }), "mut_osp");
      chai.add(fun([](int k) { g_log += (k ? "P1," : "P0,"); }), "pr");
      before = W.snapshot();
      try {
        chai.eval(src);
      } catch (const chaiscript::exception::eval_error &e) {
        outcome = "err eval_error";
      } catch (const chaiscript::exception::bad_boxed_cast &) {
        outcome = "err bad_boxed_cast";
      } catch (const Boxed_Value &) {
        outcome = "err thrown";
      } catch (const std::exception &e) {
        outcome = std::string("err std ") + vh::clean(e.what(), 40);
      } catch (...) {
        outcome = "err other";
      }
      after = W.snapshot();
    }
    std::cout << before << "|" << after << "|" << outcome << "|" << g_log << "\n" << std::flush;
  }
  return 0;
}
