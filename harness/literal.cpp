// Correspondence harness, mode `literal` (property C16): literals through the real parser+evaluator.
//   int <base> <digits hex> <suffix hex|->   -> ok <int|uint|long|ulong|llong|ullong> <value> | error:<class>
//   str <body hex>                            -> ok <bytes hex> | error:<class>
//   chr <body hex>                            -> ok <byte hex>  | error:<class>
//   id  <name hex>                            -> ordinary | special
//   flt <text hex>                            -> ok <float|double|ldouble> <bits of (double)value> | error:<class>
#include <chaiscript/chaiscript.hpp>
#include <cmath>
#include <cstdlib>
#include "vcommon.hpp"
using namespace chaiscript;

template<typename F>
static std::string guarded(F &&f) {
  try {
    return f();
  } catch (const chaiscript::exception::eval_error &e) {
    return "error:eval_error:" + vh::clean(e.reason, 60);
  } catch (const chaiscript::exception::bad_boxed_cast &) {
    return "error:bad_boxed_cast";
  } catch (const std::invalid_argument &e) {
    return std::string("error:LEAK:invalid_argument:") + vh::clean(e.what(), 40);
  } catch (const std::out_of_range &e) {
    return std::string("error:LEAK:out_of_range:") + vh::clean(e.what(), 40);
  } catch (const std::exception &e) {
    return std::string("error:std:") + vh::clean(e.what(), 60);
  } catch (...) {
    return "error:other";
  }
}

static std::string int_show(const Boxed_Value &bv) {
  const Type_Info &ti = bv.get_type_info();
  using ull = unsigned long long; using ll = long long;
  if (ti.bare_equal(user_type<int>())) return "ok int " + std::to_string(boxed_cast<int>(bv));
  if (ti.bare_equal(user_type<unsigned int>())) return "ok uint " + std::to_string(boxed_cast<unsigned int>(bv));
  if (ti.bare_equal(user_type<long>())) return "ok long " + std::to_string(boxed_cast<long>(bv));
  if (ti.bare_equal(user_type<unsigned long>())) return "ok ulong " + std::to_string(boxed_cast<unsigned long>(bv));
  if (ti.bare_equal(user_type<ll>())) return "ok llong " + std::to_string(boxed_cast<ll>(bv));
  if (ti.bare_equal(user_type<ull>())) return "ok ullong " + std::to_string(boxed_cast<ull>(bv));
  if (ti.bare_equal(user_type<float>())) return "ok float " + vh::hex64(vh::dbits(static_cast<double>(boxed_cast<float>(bv))));
  if (ti.bare_equal(user_type<double>())) return "ok double " + vh::hex64(vh::dbits(boxed_cast<double>(bv)));
  if (ti.bare_equal(user_type<long double>())) return "ok ldouble " + vh::hex64(vh::dbits(static_cast<double>(boxed_cast<long double>(bv))));
  return std::string("ok other:") + ti.bare_name();
}

// A literal denotes its written value every time it is evaluated: the value cached in the syntax tree must be
// const, and an attempt to write through it must not change what the next evaluation yields.
static std::string probe(ChaiScript &chai, const std::string &text) {
  std::string flags;
  chai.eval("def __lit() { " + text + " }");
  Boxed_Value v1 = chai.eval("__lit()");
  if (!v1.is_const()) flags += " MUTABLE";
  const std::string before = int_show(v1);
  try { chai.eval("def __bump(x) { x += 1 }; __bump(__lit())"); } catch (...) {}
  try { chai.eval("def __bump2(x) { ++x }; __bump2(__lit())"); } catch (...) {}
  if (int_show(chai.eval("__lit()")) != before) flags += " REEVAL_CHANGED";
  return flags;
}

int main() {
  ChaiScript chai;
  const auto st = chai.get_state();
  const auto lo = chai.get_locals();
  std::string line;
  while (std::getline(std::cin, line)) {
    auto w = vh::words(line);
    std::string out = "bad-op";
    if (w.size() == 4 && w[0] == "int") {
      const int base = std::stoi(w[1]);
      const std::string text = std::string(base == 16 ? "0x" : base == 2 ? "0b" : "") + vh::hex_decode(w[2]) + (w[3] == "-" ? "" : vh::hex_decode(w[3]));
      out = guarded([&] { return int_show(chai.eval(text)) + probe(chai, text); });
    } else if (w.size() == 2 && w[0] == "flt") {
      const std::string text = vh::hex_decode(w[1]);
      out = guarded([&] { return int_show(chai.eval(text)) + probe(chai, text); });
    } else if (w.size() == 2 && w[0] == "fltl") {
      // a long double literal: distance (in long double ulps) from what strtold makes of the same text
      const std::string text = vh::hex_decode(w[1]);
      out = guarded([&] {
        Boxed_Value bv = chai.eval(text);
        if (!bv.get_type_info().bare_equal(user_type<long double>())) return std::string("ok other:") + bv.get_type_info().bare_name();
        const long double got = boxed_cast<long double>(bv);
        std::string body = text;
        while (!body.empty() && (body.back() == 'l' || body.back() == 'L')) body.pop_back();
        const long double ref = std::strtold(body.c_str(), nullptr);
        if (std::isinf(ref) || std::isinf(got)) return std::string(std::isinf(ref) == std::isinf(got) ? "okl 0" : "okl 1000000000");
        if (ref == got) return std::string("okl 0");
        const long double ulp = std::fabs(std::nextafterl(ref, INFINITY) - ref);
        long double d = std::fabs(got - ref) / (ulp > 0 ? ulp : 1);
        if (d > 1e9L) d = 1e9L;
        return "okl " + std::to_string(static_cast<long long>(d + 0.5L));
      });
    } else if (w.size() == 2 && w[0] == "str") {
      const std::string src = "\"" + vh::hex_decode(w[1]) + "\"";
      out = guarded([&] { return "ok " + vh::hex_encode(chai.eval<std::string>(src)); });
    } else if (w.size() == 2 && w[0] == "chr") {
      const std::string src = "'" + vh::hex_decode(w[1]) + "'";
      out = guarded([&] { return "ok " + vh::hex_encode(std::string(1, chai.eval<char>(src))); });
    } else if (w.size() == 2 && w[0] == "id") {
      const std::string name = vh::hex_decode(w[1]);
      out = guarded([&] {
        Boxed_Value r = chai.eval("var " + name + " = 1; " + name);
        return std::string(r.get_type_info().bare_equal(user_type<int>()) && boxed_cast<int>(r) == 1 ? "ordinary" : "special");
      });
      if (out.rfind("error", 0) == 0) out = "special";
    }
    chai.set_locals(lo);
    chai.set_state(st);
    std::cout << out << "\n" << std::flush;
  }
  return 0;
}
