// Correspondence harness, mode `arith` (property C05).
// One case per stdin line:  <route> <op> <lv> [<ct> <value>]*   (same lines go to `chaimodel arith`)
//   route  direct2|direct1 : Boxed_Number::do_oper with opcode name <op>
//          node            : script expression through the operator nodes  (a OP b / OP a)
//          func            : script call of the operator as a function     (`OP`(a, b))
//          foldr           : script expression a OP <literal>              (Fold_Right node)
//          fold            : script expression <literal> OP <literal>      (constant folding)
//   lv     1 = lhs is a modifiable variable, 0 = lhs is const
//   ct     i8 u8 i16 u16 i32 u32 i64 u64 f32 f64 f80; value: decimal, or hex bits of a double
// Output: val <ct> <v> | bool 0/1 | lhs <ct> <v> | arithErr | badCast | evalErr:<what> | dispatchErr | stdErr:<what> | trap
#include <chaiscript/chaiscript.hpp>
#include <csetjmp>
#include <csignal>
#include "vcommon.hpp"

using namespace chaiscript;
using Op = Operators::Opers;

static sigjmp_buf g_jmp;
static void on_fpe(int) { siglongjmp(g_jmp, 1); }

static const std::map<std::string, Op> &opers() {
  static const std::map<std::string, Op> m = {
      {"equals", Op::equals}, {"less_than", Op::less_than}, {"greater_than", Op::greater_than},
      {"less_than_equal", Op::less_than_equal}, {"greater_than_equal", Op::greater_than_equal},
      {"not_equal", Op::not_equal}, {"assign", Op::assign}, {"pre_increment", Op::pre_increment},
      {"pre_decrement", Op::pre_decrement}, {"assign_product", Op::assign_product}, {"assign_sum", Op::assign_sum},
      {"assign_quotient", Op::assign_quotient}, {"assign_difference", Op::assign_difference},
      {"assign_bitwise_and", Op::assign_bitwise_and}, {"assign_bitwise_or", Op::assign_bitwise_or},
      {"assign_shift_left", Op::assign_shift_left}, {"assign_shift_right", Op::assign_shift_right},
      {"assign_remainder", Op::assign_remainder}, {"assign_bitwise_xor", Op::assign_bitwise_xor},
      {"shift_left", Op::shift_left}, {"shift_right", Op::shift_right}, {"remainder", Op::remainder},
      {"bitwise_and", Op::bitwise_and}, {"bitwise_or", Op::bitwise_or}, {"bitwise_xor", Op::bitwise_xor},
      {"bitwise_complement", Op::bitwise_complement}, {"sum", Op::sum}, {"quotient", Op::quotient},
      {"product", Op::product}, {"difference", Op::difference}, {"unary_plus", Op::unary_plus},
      {"unary_minus", Op::unary_minus}, {"invalid", Op::invalid}};
  return m;
}
static const std::map<std::string, std::string> &optexts() {
  static const std::map<std::string, std::string> m = {
      {"eqeq", "=="}, {"lt", "<"}, {"gt", ">"}, {"le", "<="}, {"ge", ">="}, {"ne", "!="}, {"asg", "="}, {"inc", "++"},
      {"dec", "--"}, {"mulasg", "*="}, {"addasg", "+="}, {"divasg", "/="}, {"subasg", "-="}, {"andasg", "&="},
      {"orasg", "|="}, {"shlasg", "<<="}, {"shrasg", ">>="}, {"modasg", "%="}, {"xorasg", "^="}, {"shl", "<<"},
      {"shr", ">>"}, {"mod", "%"}, {"band", "&"}, {"bor", "|"}, {"bxor", "^"}, {"compl", "~"}, {"plus", "+"},
      {"div", "/"}, {"mul", "*"}, {"minus", "-"}};
  return m;
}

template<typename T>
static Boxed_Value mk(T v, bool lv) { return lv ? var(v) : const_var(v); }

static Boxed_Value make(const std::string &ct, const std::string &v, bool lv) {
  if (ct == "i8") return mk<std::int8_t>(static_cast<std::int8_t>(std::stoll(v)), lv);
  if (ct == "u8") return mk<std::uint8_t>(static_cast<std::uint8_t>(std::stoull(v)), lv);
  if (ct == "i16") return mk<std::int16_t>(static_cast<std::int16_t>(std::stoll(v)), lv);
  if (ct == "u16") return mk<std::uint16_t>(static_cast<std::uint16_t>(std::stoull(v)), lv);
  if (ct == "i32") return mk<std::int32_t>(static_cast<std::int32_t>(std::stoll(v)), lv);
  if (ct == "u32") return mk<std::uint32_t>(static_cast<std::uint32_t>(std::stoull(v)), lv);
  if (ct == "i64") return mk<std::int64_t>(static_cast<std::int64_t>(std::stoll(v)), lv);
  if (ct == "u64") return mk<std::uint64_t>(static_cast<std::uint64_t>(std::stoull(v)), lv);
  const double d = vh::bitsd(std::stoull(v, nullptr, 16));
  if (ct == "f32") return mk<float>(static_cast<float>(d), lv);
  if (ct == "f64") return mk<double>(d, lv);
  if (ct == "f80") return mk<long double>(static_cast<long double>(d), lv);
  throw std::runtime_error("bad ct " + ct);
}

static std::string fshow(double d) { return d != d ? std::string("nan") : vh::hex64(vh::dbits(d)); }

static std::string show(const Boxed_Value &bv) {
  const Type_Info &ti = bv.get_type_info();
  const void *p = bv.get_const_ptr();
  using llong = long long; using ullong = unsigned long long; using ldouble = long double;
  auto is = [&](auto tag) { return ti.bare_equal(user_type<decltype(tag)>()); };
  if (is(bool{})) return std::string("bool ") + (*static_cast<const bool *>(p) ? "1" : "0");
#define INTCASE(T, NAME) if (is(T{})) return std::string(NAME " ") + std::to_string(*static_cast<const T *>(p));
  INTCASE(std::int8_t, "i8") INTCASE(std::uint8_t, "u8") INTCASE(std::int16_t, "i16") INTCASE(std::uint16_t, "u16")
  INTCASE(std::int32_t, "i32") INTCASE(std::uint32_t, "u32") INTCASE(std::int64_t, "i64") INTCASE(std::uint64_t, "u64")
  INTCASE(llong, "i64") INTCASE(ullong, "u64") INTCASE(char, "i8")
#undef INTCASE
  if (is(float{})) return "f32 " + fshow(static_cast<double>(*static_cast<const float *>(p)));
  if (is(double{})) return "f64 " + fshow(*static_cast<const double *>(p));
  if (is(ldouble{})) return "f80 -";
  return std::string("other:") + ti.bare_name();
}

static std::string literal(const std::string &ct, const std::string &v) {
  if (ct == "i32") return v[0] == '-' ? "(" + v + ")" : v;
  if (ct == "u32") return v + "u";
  if (ct == "i64") return v[0] == '-' ? "(" + v + "l)" : v + "l";
  if (ct == "u64") return v + "ul";
  const double d = vh::bitsd(std::stoull(v, nullptr, 16));
  char buf[64];
  snprintf(buf, sizeof buf, "%.17g", d);
  std::string s = buf;
  if (s.find_first_of(".e") == std::string::npos) s += ".0";
  if (s[0] == '-') s = "(" + s;
  std::string suf = ct == "f32" ? "f" : ct == "f80" ? "l" : "";
  s += suf;
  if (s[0] == '(') s += ")";
  return s;
}

template<typename F>
static std::string guarded(F &&f) {
  try {
    return f();
  } catch (const chaiscript::exception::arithmetic_error &) {
    return "arithErr";
  } catch (const chaiscript::detail::exception::bad_any_cast &) {
    return "badCast";
  } catch (const chaiscript::exception::eval_error &e) {
    return "evalErr:" + vh::clean(e.reason);
  } catch (const chaiscript::exception::dispatch_error &) {
    return "dispatchErr";
  } catch (const chaiscript::exception::bad_boxed_cast &) {
    return "badBoxedCast";
  } catch (const std::exception &e) {
    return "stdErr:" + vh::clean(e.what());
  } catch (const Boxed_Value &) {
    return "thrownBoxed";
  }
}

template<typename T>
static void abi_row(const char *name) {
  std::cout << name << " " << sizeof(T) << " " << (std::is_signed<T>::value ? 1 : 0) << "\n";
}

int main(int argc, char **argv) {
  if (argc > 1 && std::string(argv[1]) == "--abi") {
    abi_row<int>("int"); abi_row<double>("double"); abi_row<long double>("longdouble"); abi_row<float>("float");
    abi_row<char>("char"); abi_row<unsigned char>("uchar"); abi_row<unsigned int>("uint"); abi_row<long>("long");
    abi_row<long long>("llong"); abi_row<unsigned long>("ulong"); abi_row<unsigned long long>("ullong");
    abi_row<std::int8_t>("int8"); abi_row<std::int16_t>("int16"); abi_row<std::int32_t>("int32"); abi_row<std::int64_t>("int64");
    abi_row<std::uint8_t>("uint8"); abi_row<std::uint16_t>("uint16"); abi_row<std::uint32_t>("uint32"); abi_row<std::uint64_t>("uint64");
    abi_row<wchar_t>("wchar"); abi_row<char16_t>("char16"); abi_row<char32_t>("char32");
    return 0;
  }
  struct sigaction sa {};
  sa.sa_handler = on_fpe;
  sa.sa_flags = SA_NODEFER;
  sigaction(SIGFPE, &sa, nullptr);
  std::unique_ptr<ChaiScript> chai;
  std::string line;
  while (std::getline(std::cin, line)) {
    auto w = vh::words(line);
    if (w.size() < 3) { std::cout << "bad-op\n"; continue; }
    const std::string route = w[0], op = w[1];
    const bool lv = w[2] == "1";
    std::vector<std::pair<std::string, std::string>> args;
    for (size_t i = 3; i + 1 < w.size(); i += 2) args.emplace_back(w[i], w[i + 1]);
    std::string out;
    if (sigsetjmp(g_jmp, 1) != 0) {
      std::cout << "trap" << std::endl;
      chai.reset(nullptr); // the engine was abandoned mid-evaluation
      continue;
    }
    if (route == "direct2" && args.size() == 2) {
      out = guarded([&] {
        Boxed_Value a = make(args[0].first, args[0].second, lv);
        Boxed_Value b = make(args[1].first, args[1].second, false);
        Boxed_Value r = Boxed_Number::do_oper(opers().at(op), a, b);
        if (r.get_const_ptr() == a.get_const_ptr()) return "lhs " + show(a);
        { std::string sr = show(r); return sr.rfind("bool", 0) == 0 ? sr : "val " + sr; }
      });
    } else if (route == "direct1" && args.size() == 1) {
      out = guarded([&] {
        Boxed_Value a = make(args[0].first, args[0].second, lv);
        Boxed_Value r = Boxed_Number::do_oper(opers().at(op), a);
        if (r.get_const_ptr() == a.get_const_ptr()) return "lhs " + show(a);
        { std::string sr = show(r); return sr.rfind("bool", 0) == 0 ? sr : "val " + sr; }
      });
    } else {
      if (!chai) chai = std::make_unique<ChaiScript>();
      const std::string sym = optexts().at(op);
      out = guarded([&] {
        auto st = chai->get_state();
        auto lo = chai->get_locals();
        std::string src;
        Boxed_Value a, b;
        if (route == "fold") {
          if (args.size() == 2) src = literal(args[0].first, args[0].second) + " " + sym + " " + literal(args[1].first, args[1].second);
          else src = sym + literal(args[0].first, args[0].second);
        } else {
          a = make(args[0].first, args[0].second, lv);
          chai->add(a, "va");
          if (args.size() == 2) {
            if (route == "foldr") {
              src = "va " + sym + " " + literal(args[1].first, args[1].second);
            } else {
              b = make(args[1].first, args[1].second, false);
              chai->add(b, "vb");
              src = route == "func" ? "`" + sym + "`(va, vb)" : "va " + sym + " vb";
            }
          } else {
            src = route == "func" ? "`" + sym + "`(va)" : sym + "va";
          }
        }
        std::string res;
        try {
          Boxed_Value r = chai->eval(src);
          if (!a.is_undef() && r.get_const_ptr() == a.get_const_ptr()) res = "lhs " + show(a);
          else { std::string sr = show(r); res = sr.rfind("bool", 0) == 0 ? sr : "val " + sr; }
        } catch (...) {
          chai->set_locals(lo);
          chai->set_state(st);
          throw;
        }
        chai->set_locals(lo);
        chai->set_state(st);
        return res;
      });
    }
    std::cout << out << "\n";
  }
  std::cout.flush();
  return 0;
}
