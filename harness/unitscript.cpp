// Differential harness, mode `unitscript` (properties C02, C04): run a script file of the repository's own
// unit-test corpus (after unittests/unit_test.inc) on a fresh engine, in one of four configurations, and
// report the outcome and everything the script printed.
//   <hints 0|1> <opt|noopt> <hex path>
// Output: res=<ok|exit N|eval_error <reason>|exception <what>|boxed <type>> out=<len>:<fnv1a of stdout> head=<hex of first 160 bytes> shape=<stacks>/<call_params>/<depth>
#include <chaiscript/chaiscript.hpp>
#include "vcommon.hpp"
#include <fcntl.h>
#include <unistd.h>
using namespace chaiscript;

namespace chaiscript_verif {
  struct Access {
    static chaiscript::detail::Dispatch_Engine &engine(ChaiScript_Basic &c) { return c.m_engine; }
  };
}

// the Stack_Holder after the script: stacks / call_params / call depth (C09: must be the resting shape however the script ended)
static std::string g_shape;
static void read_shape(ChaiScript_Basic &chai) {
  auto &sh = chaiscript_verif::Access::engine(chai).get_stack_holder();
  std::string shape = "[";
  for (size_t i = 0; i < sh.stacks.size(); ++i) shape += (i ? "," : "") + std::to_string(sh.stacks[i].size());
  shape += "]/" + std::to_string(sh.call_params.size()) + "/" + std::to_string(sh.call_depth);
  size_t saved = 0;
  for (auto &p : sh.call_params) saved += p.size();
  if (saved != 0) shape += "/SAVED-PARAMS-LEFT=" + std::to_string(saved);
  try { if (chai.eval<int>("1 + 1") != 2) shape += "/ENGINE-BROKEN"; } catch (...) { shape += "/ENGINE-BROKEN"; }
  g_shape = shape;
}

struct Identity_Pass {
  template<typename T>
  auto optimize(eval::AST_Node_Impl_Ptr<T> p) { return p; }
};

struct Exit_Called { int code; };

static void myexit(int code) { throw Exit_Called{code}; }

static std::string throws_exception(const std::function<void()> &f) {
  try { f(); } catch (const std::exception &e) { return e.what(); }
  return "";
}

static chaiscript::exception::eval_error get_eval_error(const std::function<void()> &f) {
  try { f(); } catch (const chaiscript::exception::eval_error &e) { return e; }
  throw std::runtime_error("no exception throw");
}

static double now() { return 0.0; }

static int g_real = -1, g_cap = -1;

static std::string drain() {
  fflush(stdout);
  std::cout.flush();
  std::string s;
  const off_t n = lseek(g_cap, 0, SEEK_CUR);
  if (n > 0) {
    s.resize(static_cast<size_t>(n));
    lseek(g_cap, 0, SEEK_SET);
    size_t got = 0;
    while (got < s.size()) {
      const ssize_t r = read(g_cap, &s[got], s.size() - got);
      if (r <= 0) break;
      got += static_cast<size_t>(r);
    }
    s.resize(got);
  }
  if (ftruncate(g_cap, 0) != 0) { /* ignore */ }
  lseek(g_cap, 0, SEEK_SET);
  return s;
}

template<typename Chai>
static std::string run_one(Chai &chai, const std::string &dir, const std::string &path) {
  chai.add(fun(&myexit), "exit");
  chai.add(fun(&myexit), "quit");
  chai.add(fun(&throws_exception), "throws_exception");
  chai.add(fun(&get_eval_error), "get_eval_error");
  chai.add(fun(&now), "now");
  std::string res = "ok";
  try {
    chai.eval_file(dir + "unit_test.inc");
    chai.eval_file(path);
  } catch (const Exit_Called &e) { res = "exit " + std::to_string(e.code);
  } catch (const chaiscript::exception::eval_error &e) { res = "eval_error " + vh::clean(e.reason, 100);
  } catch (const Boxed_Value &bv) { res = std::string("boxed ") + bv.get_type_info().bare_name();
  } catch (const std::exception &e) { res = "exception " + vh::clean(e.what(), 100);
  } catch (...) { res = "unknown-exception"; }
  read_shape(chai);
  return res;
}

int main() {
  // everything scripts print goes to a scratch file; the protocol uses the real stdout
  g_real = dup(1);
  char tmpl[] = "/tmp/unitscript-XXXXXX";
  g_cap = mkstemp(tmpl);
  unlink(tmpl);
  dup2(g_cap, 1);
  std::string line;
  while (std::getline(std::cin, line)) {
    auto w = vh::words(line);
    std::string reply;
    if (w.size() != 3) {
      reply = "bad-op";
    } else {
      chaiscript::detail::Dispatch_Engine::verif_ignore_hints() = (w[0] == "0");
      const std::string path = vh::hex_decode(w[2]);
      const std::string dir = path.substr(0, path.rfind('/') + 1);
      std::string res;
      if (w[1] == "noopt") {
        ChaiScript_Basic chai(chaiscript::Std_Lib::library(),
                              std::make_unique<parser::ChaiScript_Parser<eval::Noop_Tracer, optimizer::Optimizer<Identity_Pass>>>(),
                              {}, {"", dir});
        res = run_one(chai, dir, path);
      } else {
        ChaiScript chai({}, {"", dir});
        res = run_one(chai, dir, path);
      }
      const std::string out = drain();
      std::uint64_t h = 1469598103934665603ull;
      for (unsigned char c : out) { h ^= c; h *= 1099511628211ull; }
      reply = "res=" + res + " out=" + std::to_string(out.size()) + ":" + vh::hex64(h) + " head=" + vh::hex_encode(out.substr(0, 160)) + " shape=" + g_shape;
    }
    reply += "\n";
    if (write(g_real, reply.data(), reply.size()) < 0) return 1;
  }
  return 0;
}
