// Correspondence harness, mode `state` (property C15): histories of registrations / get_state / set_state.
//   state <op;op;...>   ops: fn:n:sig:tag cfn:n:sig:tag const:n:v glob:n:v type:n:k use:k loc:n:v get set:k
// Output per op: "<ok|err> F:..|G:..|C:..|T:..|L:..|E:.." (the whole observable environment), joined by ';'
#include <chaiscript/chaiscript.hpp>
#include <fstream>
#include <unistd.h>
#include "vcommon.hpp"
using namespace chaiscript;

static std::vector<int> g_evals;
static void logfn(int x) { g_evals.push_back(x); }
struct T0 {}; struct T1 {}; struct T2 {}; struct T3 {};

static std::string call_tag(ChaiScript &chai, const std::string &name, int arity) {
  std::string src = name + "(";
  for (int i = 0; i < arity; ++i) src += (i ? ", " : "") + std::string("\"s\"");   // string arguments: no arithmetic conversions in play
  src += ")";
  std::string fresh, plain, method;
  try { fresh = std::to_string(chai.eval<int>(src)); } catch (...) { fresh = "-"; }
  // the same question asked by code that was parsed ONCE, before the history began (its call sites keep their lookup hints across set_state):
  // it must get the answer freshly parsed code gets
  const std::string tail = name + "_" + std::to_string(arity) + "()";
  try { plain = std::to_string(chai.eval<int>("pobs_" + tail)); } catch (...) { plain = "-"; }
  if (arity > 0) { try { method = std::to_string(chai.eval<int>("pobm_" + tail)); } catch (...) { method = "-"; } } else method = fresh;
  if (plain != fresh || method != fresh) return fresh + "!STALE-CALL-SITE(" + plain + "/" + method + ")";
  return fresh;
}

static void define_persistent_observers(ChaiScript &chai) {
  for (const char *prefix : {"f", "g"}) {
    for (int k = 0; k < 3; ++k) {
      for (int a = 0; a < 3; ++a) {
        const std::string name = prefix + std::to_string(k);
        std::string args, margs;
        for (int i = 0; i < a; ++i) { args += (i ? ", " : "") + std::string("\"s\""); if (i > 0) margs += (i > 1 ? ", " : "") + std::string("\"s\""); }
        chai.eval("def pobs_" + name + "_" + std::to_string(a) + "() { " + name + "(" + args + ") }");
        if (a > 0) chai.eval("def pobm_" + name + "_" + std::to_string(a) + "() { \"s\"." + name + "(" + margs + ") }");
      }
    }
  }
}

static std::string observe(ChaiScript &chai) {
  std::string o = "F:";
  for (int k = 0; k < 3; ++k) { o += (k ? "," : "") + std::string("f") + std::to_string(k) + "="; for (int a = 0; a < 3; ++a) o += (a ? "." : "") + call_tag(chai, "f" + std::to_string(k), a); }
  o += "|G:";
  for (int k = 0; k < 3; ++k) { o += (k ? "," : "") + std::string("g") + std::to_string(k) + "="; for (int a = 0; a < 3; ++a) o += (a ? "." : "") + call_tag(chai, "g" + std::to_string(k), a); }
  o += "|C:";
  for (int k = 0; k < 3; ++k) {
    o += (k ? "," : "") + std::string("c") + std::to_string(k) + "=";
    try { o += std::to_string(chai.eval<int>("c" + std::to_string(k))); } catch (...) { o += "-"; }
  }
  o += "|T:";
  for (int k = 0; k < 3; ++k) {
    o += (k ? "," : "") + std::string("t") + std::to_string(k) + "=";
    try {
      Type_Info ti = chai.eval<Type_Info>("t" + std::to_string(k) + "_type");
      o += ti.bare_equal(user_type<T0>()) ? "0" : ti.bare_equal(user_type<T1>()) ? "1" : ti.bare_equal(user_type<T2>()) ? "2" : ti.bare_equal(user_type<T3>()) ? "3" : "?";
    } catch (...) { o += "-"; }
  }
  o += "|L:";
  auto locals = chai.get_locals();
  for (int k = 0; k < 3; ++k) {
    o += (k ? "," : "") + std::string("l") + std::to_string(k) + "=";
    auto it = locals.find("l" + std::to_string(k));
    o += it == locals.end() ? std::string("-") : std::to_string(boxed_cast<int>(it->second));
  }
  o += "|E:";
  if (g_evals.empty()) o += "-";
  for (size_t i = 0; i < g_evals.size(); ++i) o += (i ? "," : "") + std::to_string(g_evals[i]);
  return o;
}

int main() {
  char tmpl[] = "/tmp/verif_state_XXXXXX";
  const std::string dir = std::string(mkdtemp(tmpl)) + "/";
  for (int k = 0; k < 4; ++k) { std::ofstream o(dir + "u" + std::to_string(k) + ".chai"); o << "log(" << k << ")\n"; }
  std::string line;
  while (std::getline(std::cin, line)) {
    auto w = vh::words(line);
    if (w.size() != 2 || w[0] != "state") { std::cout << "bad-op\n"; continue; }
    ChaiScript chai({}, {dir});
    chai.add(fun(&logfn), "log");
    define_persistent_observers(chai);
    g_evals.clear();
    std::vector<ChaiScript::State> snaps;
    std::string out;
    for (auto &op : vh::fields(w[1], ';')) {
      auto a = vh::fields(op, ':');
      bool ok = true;
      try {
        if (a[0] == "fn") {
          std::string params;
          for (int i = 0; i < std::stoi(a[2]); ++i) params += (i ? ", p" : "p") + std::to_string(i);
          chai.eval("def f" + a[1] + "(" + params + ") { " + a[3] + " }");
        } else if (a[0] == "cfn") {
          const int tag = std::stoi(a[3]);
          const std::string name = "g" + a[1];
          if (a[2] == "0") chai.add(fun([tag]() { return tag; }), name);
          else if (a[2] == "1") chai.add(fun([tag](const std::string &) { return tag; }), name);
          else chai.add(fun([tag](const std::string &, const std::string &) { return tag; }), name);
        } else if (a[0] == "const") {
          chai.add_global_const(const_var(std::stoi(a[2])), "c" + a[1]);
        } else if (a[0] == "glob") {
          chai.set_global(var(std::stoi(a[2])), "c" + a[1]);
        } else if (a[0] == "type") {
          const std::string name = "t" + a[1];
          switch (std::stoi(a[2])) { case 0: chai.add(user_type<T0>(), name); break; case 1: chai.add(user_type<T1>(), name); break; case 2: chai.add(user_type<T2>(), name); break; default: chai.add(user_type<T3>(), name); }
        } else if (a[0] == "use") {
          chai.use("u" + a[1] + ".chai");
        } else if (a[0] == "loc") {
          auto locals = chai.get_locals();
          if (locals.count("l" + a[1])) chai.eval("l" + a[1] + " = " + a[2]); else chai.eval("var l" + a[1] + " = " + a[2]);
        } else if (a[0] == "get") {
          snaps.push_back(chai.get_state());
        } else if (a[0] == "set") {
          const size_t k = std::stoul(a[1]);
          if (k < snaps.size()) chai.set_state(snaps[k]); else ok = false;
        }
      } catch (const std::exception &) { ok = false; } catch (const Boxed_Value &) { ok = false; }
      if (!out.empty()) out += ";";
      out += std::string(ok ? "ok " : "err ") + observe(chai);
    }
    std::cout << out << "\n" << std::flush;
  }
  for (int k = 0; k < 4; ++k) unlink((dir + "u" + std::to_string(k) + ".chai").c_str());
  rmdir(dir.c_str());
  return 0;
}
