// Correspondence harness, mode `prelude` (property C17): the script-level algorithms on the real engine.
// line: <fn> <args...>  (lists as csv or '-')   output: res=<..>[ trace=<csv>][ INPUT-CHANGED]
#include <chaiscript/chaiscript.hpp>
#include "vcommon.hpp"
using namespace chaiscript;

static std::vector<long long> g_log;
static void logfn(const Boxed_Number &x) { g_log.push_back(x.get_as<long long>()); }

static std::string veclit(const std::string &csv) { return csv == "-" ? "[]" : "[" + csv + "]"; }
static std::string strlit(const std::string &csv) {
  // a string built from char codes
  std::string e = "\"\"";
  if (csv == "-") return "string()";
  std::string s = "string()";
  std::string r = "fun(){ var s = string(); ";
  for (auto &x : vh::fields(csv, ',')) r += "s.push_back(char(" + x + ")); ";
  return r + "s }()";
}

static std::string show(const Boxed_Value &bv);
static std::string show_vec(const std::vector<Boxed_Value> &v) {
  std::string o;
  bool pairs = false;
  for (auto &b : v) if (b.get_type_info().bare_equal(user_type<std::vector<Boxed_Value>>())) pairs = true;
  for (auto &b : v) {
    if (!o.empty()) o += pairs ? ";" : ",";
    if (pairs) {
      auto &p = boxed_cast<const std::vector<Boxed_Value> &>(b);
      o += show(p.at(0)) + ":" + show(p.at(1));
    } else {
      o += show(b);
    }
  }
  return o.empty() ? "-" : o;
}
static std::string show(const Boxed_Value &bv) {
  if (bv.is_undef()) return "undef";
  const Type_Info &ti = bv.get_type_info();
  if (ti.bare_equal(user_type<void>())) return "-";
  if (ti.bare_equal(user_type<bool>())) return boxed_cast<bool>(bv) ? "true" : "false";
  if (ti.bare_equal(user_type<std::string>())) return boxed_cast<std::string>(bv);
  if (ti.bare_equal(user_type<char>())) return std::to_string(static_cast<int>(static_cast<unsigned char>(boxed_cast<char>(bv))));
  if (ti.bare_equal(user_type<double>())) return std::to_string(static_cast<long long>(boxed_cast<double>(bv)));
  if (ti.is_arithmetic()) return std::to_string(Boxed_Number(bv).get_as<long long>());
  if (ti.bare_equal(user_type<std::vector<Boxed_Value>>())) return show_vec(boxed_cast<const std::vector<Boxed_Value> &>(bv));
  return std::string("other:") + ti.bare_name();
}
static std::string codes(const std::string &s) {
  std::string o;
  for (unsigned char c : s) { if (!o.empty()) o += ","; o += std::to_string(c); }
  return o.empty() ? "-" : o;
}

static const std::map<std::string, std::string> CB = {
    {"even", "fun(x){ log(x); x % 2 == 0 }"}, {"pos", "fun(x){ log(x); x > 0 }"}, {"lt5", "fun(x){ log(x); x < 5 }"},
    {"never", "fun(x){ log(x); false }"}, {"always", "fun(x){ log(x); true }"},
    {"inc", "fun(x){ log(x); x + 1 }"}, {"dbl", "fun(x){ log(x); x * 2 }"}, {"neg", "fun(x){ log(x); -x }"},
    {"add", "fun(a, b){ a + b }"}, {"sub", "fun(a, b){ a - b }"}, {"mul", "fun(a, b){ a * b }"}, {"maxf", "fun(a, b){ max(a, b) }"}};

int main() {
  ChaiScript chai;
  chai.add(fun(&logfn), "log");
  const auto st = chai.get_state();
  const auto lo = chai.get_locals();
  std::string line;
  while (std::getline(std::cin, line)) {
    auto w = vh::words(line);
    std::string out = "bad-op";
    g_log.clear();
    try {
      const bool on_range = w[0].rfind("R:", 0) == 0;     // pass a range object (not a container) and use it twice
      const std::string f = on_range ? w[0].substr(2) : w[0];
      bool traced = false, is_str = false;
      std::string expr;
      // the input container lives in `inp` so that we can look at it afterwards
      auto L = [&](size_t i) { return veclit(w.at(i)); };
      bool str_result = false;
      if (f == "joins" || f == "to_strings") {
        // a vector of strings: tokens separated by ',', E = the empty string
        std::string lit = "[";
        for (auto &tok : vh::fields(w.at(1), ',')) { if (lit.size() > 1) lit += ", "; lit += "\"" + (tok == "E" ? std::string() : tok) + "\""; }
        chai.eval("var inp = " + lit + "]");
        str_result = true;
      }
      else if (f == "ltrim" || f == "rtrim" || f == "trim") { is_str = true; chai.eval("var inp = " + strlit(w.at(1))); }
      else if (f == "zip_with") chai.eval("var inp = " + L(2));
      else if (f == "generate_range" || f == "min" || f == "max" || f == "odd" || f == "even") chai.eval("var inp = []");
      else chai.eval("var inp = " + L(1));
      const std::string before = is_str ? codes(chai.eval<std::string>("inp")) : show(chai.eval("inp"));
      if (f == "for_each") { expr = "for_each(inp, fun(x){ log(x) })"; traced = true; }
      else if (f == "any_of" || f == "all_of" || f == "map" || f == "take_while" || f == "drop_while" || f == "filter") { expr = f + "(inp, " + CB.at(w.at(2)) + ")"; traced = true; }
      else if (f == "contains" || f == "take" || f == "drop") expr = f + "(inp, " + w.at(2) + ")";
      else if (f == "foldl") expr = "foldl(inp, " + CB.at(w.at(2)) + ", " + w.at(3) + ")";
      else if (f == "sum" || f == "product" || f == "reverse" || f == "to_string") expr = f + "(inp)";
      else if (f == "concat" || f == "zip") expr = f + "(inp, " + L(2) + ")";
      else if (f == "reduce") expr = "reduce(inp, " + CB.at(w.at(2)) + ")";
      else if (f == "join") expr = "join(inp, \", \")";
      else if (f == "joins") expr = std::string("join(inp, \"") + (w.at(2) == "c" ? "," : w.at(2) == "cs" ? ", " : w.at(2) == "e" ? "" : "--") + "\")";
      else if (f == "to_strings") expr = "to_string(inp)";
      else if (f == "generate_range") expr = "generate_range(" + w.at(1) + ", " + w.at(2) + ")";
      else if (f == "zip_with") expr = "zip_with(" + CB.at(w.at(1)) + ", inp, " + L(3) + ")";
      else if (f == "retro") { expr = "for_each(retro(range(inp)), fun(x){ log(x) })"; traced = true; }
      else if (f == "retroretro") { expr = "for_each(retro(retro(range(inp))), fun(x){ log(x) })"; traced = true; }
      else if (f == "find") expr = "var r = find(inp, " + w.at(2) + "); var o = []; while (!r.empty()) { o.push_back(r.front()); r.pop_front(); }; o";
      else if (f == "min" || f == "max") expr = f + "(" + w.at(1) + ", " + w.at(2) + ")";
      else if (f == "odd" || f == "even") expr = f + "(" + w.at(1) + ")";
      else if (is_str) expr = "inp." + f + "()";
      if (on_range) {
        chai.eval("var rng = range(inp)");
        size_t pos = 0;
        while ((pos = expr.find("inp", pos)) != std::string::npos) { expr.replace(pos, 3, "rng"); pos += 3; }
      }
      std::string res;
      try {
        Boxed_Value r = chai.eval(expr);
        res = (is_str || str_result) ? codes(boxed_cast<std::string>(r)) : show(r);
        if (on_range) {
          g_log.push_back(-777);    // separator between the two uses in the trace
          Boxed_Value r2 = chai.eval(expr);
          res += "|" + (str_result ? codes(boxed_cast<std::string>(r2)) : show(r2));
        }
      } catch (const chaiscript::exception::eval_error &e) { res = "error"; if (getenv("VERIF_DEBUG")) res += ":" + e.pretty_print();
      } catch (const std::exception &) { res = "error"; }
      out = "res=" + res;
      if (traced) {
        std::string t, seg;
        bool any = false;
        for (auto x : g_log) {
          if (x == -777) { t += (any ? seg : std::string("-")) + "|"; seg.clear(); any = false; continue; }
          if (any) seg += ",";
          seg += std::to_string(x); any = true;
        }
        t += any ? seg : std::string("-");
        out += " trace=" + t;
      }
      const std::string after = is_str ? codes(chai.eval<std::string>("inp")) : show(chai.eval("inp"));
      if (after != before) out += " INPUT-CHANGED";
    } catch (const std::exception &e) {
      out = std::string("HARNESS:") + vh::clean(e.what(), 80);
    }
    chai.set_locals(lo);
    chai.set_state(st);
    std::cout << out << "\n" << std::flush;
  }
  return 0;
}
