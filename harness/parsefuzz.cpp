// Harness, mode `parsefuzz` (property C01), built with clang++ -fsanitize=address,undefined: parse one input per line (hex), no engine involved.
//   ws <hex bytes> <start> <0|1>  ->  ok <retval> <index> <line> <col> | illegal <index> <line> <col>      (SkipWS alone, C01 / M-WS)
//   <hex bytes>  ->  ok end=<line>:<col> depth=<counter after> stack=<match stack size after> | eval_error <reason class> | LEAK:<exception type that is not eval_error>
// A crash (sanitizer report, SIGSEGV from stack exhaustion, std::terminate) kills the process: the driver records which input did it.
#include <chaiscript/chaiscript.hpp>
#include "vcommon.hpp"
using namespace chaiscript;
using Parser = parser::ChaiScript_Parser<eval::Noop_Tracer, optimizer::Optimizer_Default>;
struct Identity_Pass {
  template<typename T>
  auto optimize(eval::AST_Node_Impl_Ptr<T> p) { return p; }
};
using PlainParser = parser::ChaiScript_Parser<eval::Noop_Tracer, optimizer::Optimizer<Identity_Pass>>;   // the tree as parsed, nothing folded away

namespace chaiscript_verif {
  struct Access {
    static std::string parse(Parser &p, const std::string &input) {
      auto ast = p.parse_internal(input, "fuzz");
      std::string o = "ok end=" + std::to_string(ast->location.end.line) + ":" + std::to_string(ast->location.end.column);
      o += std::string(" more=") + (p.m_position.has_more() ? "1" : "0");
      o += " depth=" + std::to_string(p.m_current_parse_depth) + " stack=" + std::to_string(p.m_match_stack.size());
      o += std::string(" kind=") + ast_node_type_to_string(ast->identifier);
      return o;
    }
    // `ws <hex bytes> <start index> <skip_cr>`: SkipWS alone, on a buffer WITHOUT a terminator behind it (a read past the end is an ASan report)
    static std::string ws(Parser &p, const std::vector<char> &buf, size_t idx, bool cr) {
      p.m_filename = std::make_shared<std::string>("ws");
      p.m_position = typename Parser::Position(buf.data(), buf.data() + buf.size());
      for (size_t k = 0; k < idx; ++k) ++p.m_position;
      auto where = [&]() { return std::to_string(buf.size() - p.m_position.remaining()) + " " + std::to_string(p.m_position.line) + " " + std::to_string(p.m_position.col); };
      try {
        const bool r = p.SkipWS(cr);
        return std::string("ok ") + (r ? "1 " : "0 ") + where();
      } catch (const chaiscript::exception::eval_error &) {
        return "illegal " + where();
      }
    }
    // `leaves <hex>`: parse and count the operand leaves (Id / Constant nodes without children) of the tree
    static void count_leaves(const AST_Node &n, size_t &ids, size_t &other) {
      auto ch = n.get_children();
      if (ch.empty()) { if (n.identifier == AST_Node_Type::Id || n.identifier == AST_Node_Type::Constant) ++ids; else ++other; }
      for (auto &c : ch) count_leaves(c.get(), ids, other);
    }
    static std::string leaves(PlainParser &p, const std::string &input) {
      auto ast = p.parse_internal(input, "fuzz");
      size_t ids = 0, other = 0;
      count_leaves(*ast, ids, other);
      return "ok operands=" + std::to_string(ids) + " otherleaves=" + std::to_string(other);
    }
    static std::string after_error(Parser &p) {
      return " depth=" + std::to_string(p.m_current_parse_depth);
    }
  };
}

static std::string cls(const std::string &r) {
  if (r.rfind("Maximum parse depth exceeded", 0) == 0) return "depth-limit";
  if (r.rfind("Unparsed input", 0) == 0) return "unparsed-input";
  if (r.rfind("Incomplete", 0) == 0) return "incomplete";
  if (r.rfind("Unclosed", 0) == 0 || r.find("unclosed") != std::string::npos) return "unclosed";
  return "syntax";
}

int main() {
  std::string line;
  while (std::getline(std::cin, line)) {
    auto w = vh::words(line);
    if (w.size() == 4 && w[0] == "ws") {
      const std::string b = vh::hex_decode(w[1]);
      std::vector<char> buf(b.begin(), b.end());
      buf.shrink_to_fit();
      Parser p;
      std::cout << chaiscript_verif::Access::ws(p, buf, size_t(std::stoul(w[2])), w[3] == "1") << "\n" << std::flush;
      continue;
    }
    if (w.size() == 2 && w[0] == "leaves") {
      PlainParser p;
      std::string o;
      try { o = chaiscript_verif::Access::leaves(p, vh::hex_decode(w[1])); }
      catch (const chaiscript::exception::eval_error &e) { o = "eval_error " + cls(e.reason); }
      catch (const std::exception &e) { o = std::string("LEAK:std::exception ") + vh::clean(e.what(), 60); }
      catch (...) { o = "LEAK:unknown"; }
      std::cout << o << "\n" << std::flush;
      continue;
    }
    if (w.size() != 1) { std::cout << "bad-op\n" << std::flush; continue; }
    const std::string input = vh::hex_decode(w[0]);
    std::string out;
    Parser p;
    try {
      out = chaiscript_verif::Access::parse(p, input);
    } catch (const chaiscript::exception::eval_error &e) {
      out = "eval_error " + cls(e.reason) + chaiscript_verif::Access::after_error(p);
    } catch (const std::exception &e) {
      out = std::string("LEAK:std::exception ") + vh::clean(e.what(), 60);
    } catch (...) {
      out = "LEAK:unknown";
    }
    std::cout << out << "\n" << std::flush;
  }
  return 0;
}
