// Correspondence harness, mode `optree` (property C02): parse a program with the default optimizer
// pipeline and with optimization disabled and print both syntax trees in the model's normal form.
//   <hex source>            ->  opt=<sexp>\tnoopt=<sexp>
//   raw <hex source>        ->  generic dump (debugging)
#include <chaiscript/chaiscript.hpp>
#include "vcommon.hpp"
using namespace chaiscript;
using Tr = eval::Noop_Tracer;

namespace chaiscript_verif {
  struct Access {
    static const AST_Node &lambda_body(const eval::Lambda_AST_Node<Tr> &l) { return *l.m_lambda_node; }
  };
}

struct Identity_Pass {
  template<typename T>
  auto optimize(eval::AST_Node_Impl_Ptr<T> p) { return p; }
};

static std::string raw(const AST_Node &n) {
  std::string o = std::string("(") + ast_node_type_to_string(n.identifier) + ":" + n.text;
  if (dynamic_cast<const eval::Fold_Right_Binary_Operator_AST_Node<Tr> *>(&n)) o += ":FOLDR";
  if (dynamic_cast<const eval::Unused_Return_Fun_Call_AST_Node<Tr> *>(&n)) o += ":UNUSED";
  if (auto c = dynamic_cast<const eval::Compiled_AST_Node<Tr> *>(&n)) o += " ORIG=" + raw(*c->m_original_node);
  for (auto &c : n.get_children()) o += " " + raw(c.get());
  return o + ")";
}

static std::string constant(const AST_Node &n) {
  auto c = dynamic_cast<const eval::Constant_AST_Node<Tr> *>(&n);
  if (!c) return "(const? " + n.text + ")";
  const Boxed_Value &v = c->m_value;
  const Type_Info &ti = v.get_type_info();
  const std::string cst = v.is_const() ? "" : "!mutable";
  if (ti.bare_equal(user_type<bool>())) return std::string("(bool ") + (boxed_cast<bool>(v) ? "1" : "0") + cst + ")";
  if (ti.bare_equal(user_type<std::string>())) {
    const std::string s = boxed_cast<std::string>(v);
    return "(str " + (s.size() > 1 && s[0] == 's' ? s.substr(1) : "?" + vh::hex_encode(s)) + cst + ")";
  }
  if (ti.bare_equal(user_type<int>())) return "(int " + std::to_string(boxed_cast<int>(v)) + cst + ")";
  if (ti.is_arithmetic()) return std::string("(num:") + ti.bare_name() + " " + std::to_string(Boxed_Number(v).get_as<long long>()) + cst + ")";
  return std::string("(const:") + ti.bare_name() + ")";
}

static std::string canon(const AST_Node &n);

static std::string kids(const AST_Node &n, size_t from = 0) {
  std::string o;
  auto ch = n.get_children();
  for (size_t i = from; i < ch.size(); ++i) o += " " + canon(ch[i].get());
  return o;
}

static std::string names(const AST_Node &arglist) {
  // parameter / capture lists: (x1 x2); a typed parameter is (ty x1)
  std::string o = "(";
  bool first = true;
  for (auto &c : arglist.get_children()) {
    const AST_Node &a = c.get();
    if (!first) o += " ";
    first = false;
    auto ac = a.get_children();
    if (ac.size() == 1) o += ac[0].get().text;
    else if (ac.size() == 2) o += "(" + ac[0].get().text + " " + ac[1].get().text + ")";
    else o += "?arg:" + a.text;
  }
  return o + ")";
}

static std::string canon(const AST_Node &n) {
  auto ch = n.get_children();
  const auto T = n.identifier;
  using A = AST_Node_Type;
  if (auto c = dynamic_cast<const eval::Compiled_AST_Node<Tr> *>(&n)) {
    // the For_Loop pass: original For node (3 children left) + body
    const AST_Node &o = *c->m_original_node;
    auto oc = o.get_children();
    std::string head = "(compiled";
    if (o.identifier == A::For && oc.size() == 3 && oc[0].get().get_children().size() == 2 && oc[1].get().get_children().size() == 2) {
      head = "(cfor " + oc[0].get().get_children()[0].get().text + " " + canon(oc[0].get().get_children()[1].get()) + " "
             + canon(oc[1].get().get_children()[1].get());
    }
    return head + kids(n) + ")";
  }
  switch (T) {
    case A::File: return "(file" + kids(n) + ")";
    case A::Constant: return constant(n);
    case A::Id: return "(id " + n.text + ")";
    case A::Var_Decl: return ch.size() == 1 ? "(var " + ch[0].get().text + ")" : "(var?)";
    case A::Reference: return ch.size() == 1 ? "(ref " + ch[0].get().text + ")" : "(ref?)";
    case A::Assign_Decl: return ch.size() == 2 ? "(decl " + ch[0].get().text + " " + canon(ch[1].get()) + ")" : "(decl?)";
    case A::Equation: return "(eq " + n.text + kids(n) + ")";
    case A::Binary:
      if (dynamic_cast<const eval::Fold_Right_Binary_Operator_AST_Node<Tr> *>(&n)) return "(foldr " + n.text + kids(n) + ")";
      return "(bin " + n.text + kids(n) + ")";
    case A::Prefix: {
      const std::string op = n.text == "-" ? "neg" : n.text == "!" ? "not" : n.text == "++" ? "inc" : n.text == "--" ? "dec" : "?" + n.text;
      return "(pre " + op + kids(n) + ")";
    }
    case A::Logical_And: return "(and" + kids(n) + ")";
    case A::Logical_Or: return "(or" + kids(n) + ")";
    case A::Block: return "(block" + kids(n) + ")";
    case A::Scopeless_Block: return "(scopeless" + kids(n) + ")";
    case A::If: return "(if" + kids(n) + ")";
    case A::While: return "(while" + kids(n) + ")";
    case A::For: return "(for" + kids(n) + ")";
    case A::Break: return "(break)";
    case A::Continue: return "(continue)";
    case A::Return: return "(return" + kids(n) + ")";
    case A::Noop: return "(noop)";
    case A::Fun_Call: {
      const bool unused = dynamic_cast<const eval::Unused_Return_Fun_Call_AST_Node<Tr> *>(&n) != nullptr;
      std::string o = unused ? "(ucall " : "(call ";
      if (ch.size() != 2) return o + "?)";
      return o + canon(ch[0].get()) + kids(ch[1].get()) + ")";
    }
    case A::Array_Call: return "(index" + kids(n) + ")";
    case A::Inline_Array: return "(vec" + (ch.empty() ? std::string() : kids(ch[0].get())) + ")";
    case A::Lambda: {
      // children: captures (Arg_List), parameters (Arg_List), body
      auto l = dynamic_cast<const eval::Lambda_AST_Node<Tr> *>(&n);
      if (ch.size() != 2 || !l) return "(lambda?" + kids(n) + ")";
      return "(lambda " + names(ch[0].get()) + " " + names(ch[1].get()) + " " + canon(chaiscript_verif::Access::lambda_body(*l)) + ")";
    }
    case A::Def: {
      // children: name, parameters, [guard], body
      auto d = dynamic_cast<const eval::Def_AST_Node<Tr> *>(&n);
      if (!d || ch.empty() || !d->m_body_node) return "(def?" + kids(n) + ")";
      const std::string ps = ch.size() >= 2 ? names(ch[1].get()) : "()";
      if (d->m_guard_node) return "(defg " + ch[0].get().text + " " + ps + " " + canon(*d->m_guard_node) + " " + canon(*d->m_body_node) + ")";
      return "(def " + ch[0].get().text + " " + ps + " " + canon(*d->m_body_node) + ")";
    }
    case A::Try: return "(try" + kids(n) + ")";
    case A::Catch: {
      if (ch.size() == 1) return "(catch " + canon(ch[0].get()) + ")";
      if (ch.size() == 2) {
        const AST_Node &a = ch[0].get();
        auto ac = a.get_children();
        if (ac.size() == 2) return "(catch " + ac[1].get().text + " " + ac[0].get().text + " " + canon(ch[1].get()) + ")";
        if (ac.size() == 1) return "(catch " + ac[0].get().text + " " + canon(ch[1].get()) + ")";
        return "(catch " + a.text + " " + canon(ch[1].get()) + ")";
      }
      return "(catch?" + kids(n) + ")";
    }
    case A::Finally: return "(finally" + kids(n) + ")";
    default: return std::string("(?") + ast_node_type_to_string(T) + ":" + n.text + kids(n) + ")";
  }
}

int main() {
  std::string line;
  parser::ChaiScript_Parser<Tr, optimizer::Optimizer_Default> popt;
  parser::ChaiScript_Parser<Tr, optimizer::Optimizer<Identity_Pass>> pno;
  while (std::getline(std::cin, line)) {
    auto w = vh::words(line);
    const bool rawmode = w.size() == 2 && w[0] == "raw";
    if (w.size() != 1 && !rawmode) { std::cout << "bad-op\n"; continue; }
    const std::string src = vh::hex_decode(w.back());
    std::string a, b;
    try { auto t = popt.parse(src, "f"); a = rawmode ? raw(*t) : canon(*t); } catch (const chaiscript::exception::eval_error &e) { a = "parse-error " + vh::clean(e.reason, 60); }
    try { auto t = pno.parse(src, "f"); b = rawmode ? raw(*t) : canon(*t); } catch (const chaiscript::exception::eval_error &e) { b = "parse-error " + vh::clean(e.reason, 60); }
    std::cout << "opt=" << a << "\tnoopt=" << b << "\n" << std::flush;
  }
  return 0;
}
