# Shared orchestration for /verif checks (python3 stdlib only).
import fcntl, hashlib, json, os, re, shutil, subprocess, sys, tempfile, time

VERIF = os.path.dirname(os.path.dirname(os.path.abspath(__file__)))
REPO = os.environ.get("VERIF_REPO", "/repo")
LEAN = os.path.join(VERIF, "lean")
BUILD = os.path.join(VERIF, "build")
GEN = os.path.join(LEAN, "ChaiVerif", "Gen")
EXPECTED = os.path.join(VERIF, "extract", "expected")
# runs against a scratch tree (tools/try_mutant.sh sets VERIF_REPO) must never overwrite the evidence / replays of the real tree
EVID = os.path.join(VERIF, "evidence") if not os.environ.get("VERIF_REPO") else os.path.join(VERIF, "build", "scratch-evidence")
os.makedirs(EVID, exist_ok=True)
REPLAYS = os.path.join(VERIF, "replays")
GUARD = "CHAISCRIPT_VERIF"
ALLOWED_AXIOMS = {"propext", "Classical.choice", "Quot.sound"}
NCPU = os.cpu_count() or 4

for d in (BUILD, EVID, REPLAYS, GEN):
    os.makedirs(d, exist_ok=True)


# ---------------------------------------------------------------- PRNG
class SplitMix64:
    M = (1 << 64) - 1

    def __init__(self, seed):
        self.s = seed & self.M

    def next(self):
        self.s = (self.s + 0x9E3779B97F4A7C15) & self.M
        z = self.s
        z = ((z ^ (z >> 30)) * 0xBF58476D1CE4E5B9) & self.M
        z = ((z ^ (z >> 27)) * 0x94D049BB133111EB) & self.M
        return z ^ (z >> 31)

    def below(self, n):
        return self.next() % n if n > 0 else 0

    def choice(self, xs):
        return xs[self.below(len(xs))]

    def chance(self, num, den):
        return self.below(den) < num

    def range(self, lo, hi):  # inclusive
        return lo + self.below(hi - lo + 1)

    def shuffle(self, xs):
        xs = list(xs)
        for i in range(len(xs) - 1, 0, -1):
            j = self.below(i + 1)
            xs[i], xs[j] = xs[j], xs[i]
        return xs

    def fork(self):
        return SplitMix64(self.next())


# ---------------------------------------------------------------- utilities
def sh(cmd, cwd=None, timeout=None, input=None, env=None):
    e = dict(os.environ)
    if env:
        e.update(env)
    try:
        p = subprocess.run(cmd, cwd=cwd, timeout=timeout, input=input, env=e,
                           stdout=subprocess.PIPE, stderr=subprocess.PIPE,
                           shell=isinstance(cmd, str))
        return p.returncode, p.stdout.decode("utf-8", "replace"), p.stderr.decode("utf-8", "replace")
    except subprocess.TimeoutExpired as ex:
        out = (ex.stdout or b"").decode("utf-8", "replace")
        err = (ex.stderr or b"").decode("utf-8", "replace")
        return -999, out, err + "\nTIMEOUT"


def repo_hash(subdirs=("include",)):
    h = hashlib.sha256()
    for sd in subdirs:
        root = os.path.join(REPO, sd)
        for dp, dn, fn in sorted(os.walk(root)):
            dn.sort()
            for f in sorted(fn):
                p = os.path.join(dp, f)
                h.update(os.path.relpath(p, REPO).encode())
                with open(p, "rb") as fh:
                    h.update(fh.read())
    return h.hexdigest()


def read_repo(rel):
    with open(os.path.join(REPO, rel), "r", encoding="utf-8", errors="replace") as f:
        return f.read()


def write_if_changed(path, content):
    try:
        with open(path) as f:
            if f.read() == content:
                return False
    except FileNotFoundError:
        pass
    os.makedirs(os.path.dirname(path), exist_ok=True)
    with open(path, "w") as f:
        f.write(content)
    return True


class Lock:
    def __init__(self, name):
        self.path = os.path.join(BUILD, name + ".lock")

    def __enter__(self):
        self.f = open(self.path, "w")
        fcntl.flock(self.f, fcntl.LOCK_EX)
        return self

    def __exit__(self, *a):
        fcntl.flock(self.f, fcntl.LOCK_UN)
        self.f.close()


# ---------------------------------------------------------------- Lean side
def strip_lean_comments(src):
    # remove nested block comments and line comments (string literals in our models never contain "--" or "/-")
    out, i, depth, n = [], 0, 0, len(src)
    while i < n:
        if src.startswith("/-", i):
            depth += 1
            i += 2
        elif depth and src.startswith("-/", i):
            depth -= 1
            i += 2
        elif depth:
            if src[i] == "\n":
                out.append("\n")
            i += 1
        elif src.startswith("--", i):
            j = src.find("\n", i)
            i = n if j < 0 else j
        else:
            out.append(src[i])
            i += 1
    return "".join(out)


FORBIDDEN = re.compile(r"\bsorry\b|\badmit\b|^\s*axiom\s|native_decide|bv_decide|implemented_by|\bunsafe\s|maxHeartbeats\s+0|\bpartial\s+def\b|@\[extern", re.M)


def lean_grep_audit():
    """Forbidden constructs anywhere in the library (Driver.lean's IO loop excepted)."""
    hits = []
    for dp, dn, fn in os.walk(os.path.join(LEAN, "ChaiVerif")):
        for f in fn:
            if f.endswith(".lean"):
                p = os.path.join(dp, f)
                src = strip_lean_comments(open(p).read())
                for m in FORBIDDEN.finditer(src):
                    if "partial" in m.group(0) and os.sep + "Drv" + os.sep in p:
                        continue  # the driver's stdin loop (I/O only, never used by a theorem)
                    line = src.count("\n", 0, m.start()) + 1
                    hits.append("%s:%d: %s" % (os.path.relpath(p, LEAN), line, m.group(0).strip()))
    return hits


def theorems_in(path):
    """[(name, line)] of theorems declared in a Props file (comment-stripped)."""
    src = strip_lean_comments(open(path).read())
    res = []
    for m in re.finditer(r"^\s*(?:private\s+|protected\s+)?theorem\s+([A-Za-z_][\w.'?!]*)", src, re.M):
        res.append((m.group(1), src.count("\n", 0, m.start()) + 1))
    return res


def namespace_of(path):
    src = strip_lean_comments(open(path).read())
    m = re.search(r"^namespace\s+(\S+)", src, re.M)
    return m.group(1) if m else ""


def lake_build(targets, timeout=3000):
    with Lock("lean"):
        rc, out, err = sh(["lake", "build"] + list(targets), cwd=LEAN, timeout=timeout)
    return rc, out + err


def parse_lean_errors(text):
    """-> list of (file(rel to LEAN), line, message)"""
    errs = []
    for m in re.finditer(r"error: ([^\s:]+\.lean):(\d+):(\d+): (.*)", text):
        errs.append((m.group(1), int(m.group(2)), m.group(4)))
    return errs


def lean_axioms(module, names, ns):
    """Run #print axioms on each theorem; -> {name: set(axioms) | None (unknown constant)}"""
    body = "import %s\n" % module
    for n in names:
        full = (ns + "." + n) if ns else n
        body += "#print axioms %s\n" % full
    os.makedirs(os.path.join(BUILD, "audit"), exist_ok=True)
    fn = os.path.join(BUILD, "audit", module.replace(".", "_") + ".lean")
    with open(fn, "w") as f:
        f.write(body)
    with Lock("lean"):
        rc, out, err = sh(["lake", "env", "lean", fn], cwd=LEAN, timeout=600)
    text = out + err
    res = {}
    for n in names:
        full = (ns + "." + n) if ns else n
        m = re.search(r"'%s' depends on axioms: \[([^\]]*)\]" % re.escape(full), text, re.S)
        if m:
            res[n] = set(a.strip() for a in m.group(1).replace("\n", " ").split(",") if a.strip())
        elif re.search(r"'%s' does not depend on any axioms" % re.escape(full), text):
            res[n] = set()
        else:
            res[n] = None
    return res, text


def driver_path():
    return os.path.join(LEAN, ".lake", "build", "bin", "chaimodel")


def run_driver(mode, lines, timeout=600):
    """Feed lines (list of str) to `chaimodel <mode>`; -> list of output lines."""
    data = ("\n".join(lines) + "\n").encode()
    p = subprocess.run([driver_path(), mode], input=data, stdout=subprocess.PIPE, stderr=subprocess.PIPE, timeout=timeout)
    if p.returncode != 0:
        raise RuntimeError("driver %s failed rc=%d: %s" % (mode, p.returncode, p.stderr.decode()[:2000]))
    return p.stdout.decode("utf-8", "replace").split("\n")[:-1]


# ---------------------------------------------------------------- C++ harness
SAN = ["-fsanitize=address,undefined", "-fno-sanitize-recover=all", "-fno-omit-frame-pointer"]


# name -> build options; every check and ./setup use the same table, so setup warms exactly the caches the checks need
HARNESSES = {
    "arith": dict(opt="-O1"),
    "literal": dict(opt="-O1"),
    "file": dict(opt="-O1"),
    "prelude": dict(opt="-O1"),
    "state": dict(opt="-O1"),
    "dispatch": dict(opt="-O0"),
    "evalprog": dict(opt="-O1"),
    "optree": dict(opt="-O1"),
    "unitscript": dict(opt="-O1"),
    "errloc": dict(opt="-O1"),
    "constprobe": dict(opt="-O1"),
    # constant folding runs C++ arithmetic at parse time; signed overflow and over-wide / negative shifts are undefined but do not trap, and C05 excludes them by name
    "parsefuzz": dict(opt="-O1", sanitize=True, compiler="clang++-14", flags=["-fno-sanitize=signed-integer-overflow,shift"]),
    "lifetime": dict(opt="-O1", sanitize=True, compiler="clang++-14"),
    "engines": dict(opt="-O1"),
    "threads": dict(opt="-O1", tsan=True, compiler="clang++-14"),
    "json": dict(opt="-O1", sanitize=True, compiler="clang++-14", flags=["-fno-sanitize=signed-integer-overflow"]),
    "stl": dict(opt="-O1", sanitize=True, compiler="clang++-14"),
}


def harness_build(name, extra_flags=(), sanitize=None, opt=None, compiler="g++", tsan=None, hash_dirs=("include",), libs=("-ldl", "-lpthread")):
    spec = HARNESSES.get(name, {})
    sanitize = spec.get("sanitize", False) if sanitize is None else sanitize
    tsan = spec.get("tsan", False) if tsan is None else tsan
    opt = spec.get("opt", "-O1") if opt is None else opt
    extra_flags = list(extra_flags) + list(spec.get("flags", ()))
    src_name = spec.get("src", name)
    compiler = spec.get("compiler", compiler)
    return _harness_build(name, src_name, extra_flags, sanitize, opt, compiler, tsan, hash_dirs, libs)


def _harness_build(name, src_name, extra_flags, sanitize, opt, compiler, tsan, hash_dirs, libs):
    """Compile /verif/harness/<name>.cpp against /repo's current working tree.
    Cached by content hash of (repo include tree, harness sources, flags). -> (path|None, log)"""
    src = os.path.join(VERIF, "harness", src_name + ".cpp")
    flags = [compiler, "-std=c++17", opt, "-g0", "-w", "-D" + GUARD, "-I" + os.path.join(REPO, "include"), "-I" + os.path.join(VERIF, "harness")]
    if sanitize:
        flags += SAN
    if tsan:
        flags += ["-fsanitize=thread"]
    flags += list(extra_flags)
    h = hashlib.sha256()
    h.update(repo_hash(hash_dirs).encode())
    for f in sorted(os.listdir(os.path.join(VERIF, "harness"))):
        if f.endswith(".hpp") or f == src_name + ".cpp":
            h.update(f.encode())
            h.update(open(os.path.join(VERIF, "harness", f), "rb").read())
    h.update(" ".join(flags).encode())
    key = h.hexdigest()[:20]
    outdir = os.path.join(BUILD, "harness", name)
    os.makedirs(outdir, exist_ok=True)
    exe = os.path.join(outdir, key)
    with Lock("harness_" + name):
        if os.path.exists(exe):
            os.utime(exe)
            return exe, "cache hit"
        # keep at most two older binaries of this harness (disk)
        old = sorted((os.path.getmtime(os.path.join(outdir, f)), f) for f in os.listdir(outdir))
        for _, f in old[:-2]:
            try:
                os.remove(os.path.join(outdir, f))
            except OSError:
                pass
        tmp = exe + ".tmp"
        rc, out, err = sh(flags + [src, "-o", tmp] + list(libs), timeout=1800)
        if rc != 0:
            return None, (out + err)[-6000:]
        os.rename(tmp, exe)
        return exe, "built"


def _limit_mem(gb):
    def f():
        import resource
        resource.setrlimit(resource.RLIMIT_AS, (gb << 30, gb << 30))
    return f


def run_harness(exe, args, lines, timeout=600, env=None, mem_gb=None, stall=60):
    """Feed `lines` to the harness, one reply line each.  Killed when the whole run exceeds `timeout` or when no reply line has
    arrived for `stall` seconds (one case hangs: the lines answered so far are returned, so the caller knows which case it was)."""
    import threading
    data = ("\n".join(lines) + "\n").encode()
    e = dict(os.environ)
    e.setdefault("ASAN_OPTIONS", "detect_leaks=0:allocator_may_return_null=1:abort_on_error=0")
    e.setdefault("UBSAN_OPTIONS", "print_stacktrace=0:halt_on_error=1")
    if env:
        e.update(env)
    p = subprocess.Popen([exe] + list(args), stdin=subprocess.PIPE, stdout=subprocess.PIPE, stderr=subprocess.PIPE, env=e,
                         preexec_fn=_limit_mem(mem_gb) if mem_gb else None)
    chunks, errs, last = [], [], [time.time()]

    def feed():
        try:
            p.stdin.write(data)
            p.stdin.close()
        except (BrokenPipeError, OSError):
            pass

    def read_out():
        while True:
            b = p.stdout.read1(65536) if hasattr(p.stdout, "read1") else p.stdout.read(65536)
            if not b:
                break
            chunks.append(b)
            if b"\n" in b:
                last[0] = time.time()

    def read_err():
        errs.append(p.stderr.read())

    ts = [threading.Thread(target=f, daemon=True) for f in (feed, read_out, read_err)]
    for t in ts:
        t.start()
    t0 = time.time()
    why = None
    while p.poll() is None:
        time.sleep(0.05)
        now = time.time()
        if now - t0 > timeout:
            why = "TIMEOUT"
        elif now - last[0] > stall:
            why = "TIMEOUT (no reply for %ds: the current case hangs)" % stall
        if why:
            p.kill()
            break
    p.wait()
    for t in ts[1:]:
        t.join(timeout=5)
    out = b"".join(chunks).decode("utf-8", "replace").split("\n")[:-1]
    err = (errs[0] if errs and errs[0] else b"").decode("utf-8", "replace")
    if why:
        return -999, out, why
    return p.returncode, out, err


def run_harness_resilient(exe, args, lines, timeout=900, env=None, max_restarts=60, mem_gb=None, stall=60):
    """Like run_harness, but when the process dies (signal, abort, sanitizer) on a line, record
    'crash:<rc>[:<first stderr line>]' for that line and continue with the next one."""
    out, start, restarts = [], 0, 0
    while start < len(lines):
        rc, o, err = run_harness(exe, args, lines[start:], timeout=timeout, env=env, mem_gb=mem_gb, stall=stall)
        out += o
        start = len(out)
        if start >= len(lines):
            break
        why = ""
        for l in err.splitlines():
            if "ERROR" in l or "runtime error" in l or "terminate" in l or "TIMEOUT" in l:
                why = ":" + l.strip()[:160]
                break
        out.append("crash:rc=%s%s" % (rc, why))
        start += 1
        restarts += 1
        if restarts > max_restarts:
            out += ["crash:skipped"] * (len(lines) - len(out))
            break
    return out[:len(lines)], restarts


# ---------------------------------------------------------------- known findings
def load_known():
    p = os.path.join(VERIF, "known_findings.json")
    try:
        return json.load(open(p))
    except FileNotFoundError:
        return {"findings": []}


# ---------------------------------------------------------------- check context
class Ctx:
    def __init__(self, prop, tier, seed, level):
        self.prop, self.tier, self.seed, self.level = prop, tier, seed, level
        self.t0 = time.time()
        self.rng = SplitMix64(seed * 0x10001 + 12345)
        self.obligations = []      # (name, ok, detail)
        self.violations = []       # replay paths
        self.known_hits = []
        self.cov = {"samples": []}
        self.assumptions = []
        self.notes = []
        self.timers = {}
        self.known = [k for k in load_known()["findings"] if k.get("property") == prop]
        for f in os.listdir(REPLAYS):
            if f.startswith("%s-%s-" % (prop, tier)):
                os.remove(os.path.join(REPLAYS, f))

    # -- obligations
    def oblige(self, name, ok, detail=""):
        self.obligations.append((name, bool(ok), detail))

    def timer(self, name):
        ctx = self

        class T:
            def __enter__(s):
                s.t = time.time()

            def __exit__(s, *a):
                ctx.timers[name] = round(ctx.timers.get(name, 0) + time.time() - s.t, 2)
        return T()

    def sample(self, x, cap=6):
        if len(self.cov["samples"]) < cap:
            self.cov["samples"].append(x)

    def count(self, key, n=1):
        self.cov[key] = self.cov.get(key, 0) + n

    def hist(self, key, bucket):
        h = self.cov.setdefault(key, {})
        h[str(bucket)] = h.get(str(bucket), 0) + 1

    # -- verdicts
    def known_finding(self, tag, what):
        """True if a 'known' entry with this tag exists (prints the KNOWN-FINDING line once)."""
        for k in self.known:
            if k.get("status") == "known" and k.get("tag") == tag:
                if tag not in self.known_hits:
                    self.known_hits.append(tag)
                    print("KNOWN-FINDING: property=%s %s [%s]" % (self.prop, k.get("what_fails", what), tag))
                return True
        return False

    def violation(self, kind, payload, no_input=False):
        n = len(self.violations)
        path = os.path.join(REPLAYS, "%s-%s-%d.json" % (self.prop, self.tier, n))
        rec = {"property": self.prop, "kind": kind, "seed": self.seed, "tier": self.tier}
        rec.update(payload)
        with open(path, "w") as f:
            json.dump(rec, f, indent=1, default=str)
        self.violations.append(path)
        line = "VIOLATION property=%s replay=%s" % (self.prop, path)
        if no_input:
            line += " no-failing-input-found"
        print(line)
        sys.stdout.flush()

    def finish(self):
        ob = len(self.obligations)
        dis = sum(1 for o in self.obligations if o[1])
        cov = self.cov
        cov.setdefault("evaluations", 0)
        cov.setdefault("distinct_nontrivial", 0)
        cov["obligations"] = ob
        cov["discharged"] = dis
        cov["obligation_list"] = [{"name": n, "ok": ok, **({"detail": d} if d else {})} for n, ok, d in self.obligations]
        cov.setdefault("checker_cmd", "cd /verif/lean && lake build ChaiVerif.Props.%s && lake env lean build/audit (print axioms)" % self.prop)
        cov.setdefault("trusted_base", [
            "Lean 4.33.0 kernel; axioms allowed: propext, Classical.choice, Quot.sound (audited with #print axioms each run)",
            "translators in /verif/extract (C++ source -> ChaiVerif/Gen/*.lean)",
            "correspondence harness /verif/harness + generators; g++ 12 / libstdc++ / sanitizers",
            "Lean Spec definitions (our reading of the C++ standard / documented semantics)"])
        cov.setdefault("explanation", "see MANIFEST level_claimed.text")
        cov["timers_s"] = self.timers
        cov["known_findings_hit"] = self.known_hits
        if self.notes:
            cov["notes"] = self.notes
        ev = {"property_id": self.prop, "tier": self.tier, "seed": self.seed, "level": self.level,
              "coverage": cov, "assumptions": self.assumptions, "wall_s": round(time.time() - self.t0, 2),
              "violations": len(self.violations)}
        with open(os.path.join(EVID, self.prop + ".json"), "w") as f:
            json.dump(ev, f, indent=1, default=str)
        print("%s tier=%s seed=%d obligations=%d/%d evaluations=%d violations=%d known=%d wall=%.1fs" % (
            self.prop, self.tier, self.seed, dis, ob, cov["evaluations"], len(self.violations), len(self.known_hits), time.time() - self.t0))
        return 1 if self.violations else 0


# ---------------------------------------------------------------- the standard Lean obligation step
def lean_obligations(ctx, prop_module_names, extra_targets=("chaimodel",)):
    """Build property modules, map errors to theorems, audit axioms.
    Registers one obligation per theorem. Returns dict(name -> ok) and raw build text."""
    mods = ["ChaiVerif.Props." + m for m in prop_module_names]
    with ctx.timer("lake_build"):
        rc, text = lake_build(mods + list(extra_targets))
    errs = parse_lean_errors(text)
    status = {}
    hits = lean_grep_audit()
    for m in prop_module_names:
        path = os.path.join(LEAN, "ChaiVerif", "Props", m + ".lean")
        thms = theorems_in(path)
        ns = namespace_of(path)
        rel = os.path.join("ChaiVerif", "Props", m + ".lean")
        bad_lines = [l for (f, l, msg) in errs if f.endswith(rel)]
        other = [(f, l, msg) for (f, l, msg) in errs if not f.endswith(rel) and "/Props/" not in f]
        failed = set()
        for bl in bad_lines:
            owner = None
            for name, line in thms:
                if line <= bl:
                    owner = name
            if owner:
                failed.add(owner)
        names = [n for n, _ in thms]
        ax = {}
        if not other and (rc == 0 or bad_lines):
            with ctx.timer("axiom_audit"):
                ax, axtext = lean_axioms("ChaiVerif.Props." + m, [n for n in names if n not in failed], ns)
        for n in names:
            if other:
                ok, det = False, "dependency failed to build: %s:%d %s" % other[0]
            elif n in failed:
                lines = dict(thms)
                nxt = min([l for (_, l) in thms if l > lines[n]] + [10 ** 9])
                msg = [mm for (f, l, mm) in errs if f.endswith(rel) and lines[n] <= l < nxt]
                ok, det = False, "proof no longer checks: " + (msg[0][:300] if msg else "")
            elif failed:
                ok, det = False, "not re-checked: module did not compile because of " + ", ".join(sorted(failed))
            elif rc != 0 and not errs:
                ok, det = False, "lake build failed: " + text[-400:]
            elif ax.get(n) is None:
                ok, det = False, "theorem not found by #print axioms"
            elif not ax[n] <= ALLOWED_AXIOMS:
                ok, det = False, "uses axioms %s" % sorted(ax[n] - ALLOWED_AXIOMS)
            else:
                ok, det = True, ""
            if ok and hits:
                ok, det = False, "forbidden construct in library: " + hits[0]
            status[n] = ok
            ctx.oblige(m + "." + n, ok, det)
    return status, text, rc


# ---------------------------------------------------------------- extraction step
EXTRACTORS = [("e_arith", "Arith.lean"), ("e_lit", "Lit.lean"), ("e_stl", "Stl.lean"), ("e_file", "File.lean"), ("e_json", "Json.lean"),
              ("e_prelude", "Prelude.lean"), ("e_env", "Env.lean"), ("e_locks", "Locks.lean"), ("e_parsegraph", "ParseGraph.lean"), ("e_raii", "Raii.lean"), ("e_catches", "Catches.lean"), ("e_flatmap", "FlatMap.lean"), ("e_prec", "Prec.lean")]


def refresh_all_gen():
    """Regenerate every Gen table from /repo's current tree (all checks share one Lean library, so a table left over
    from an earlier run against a different tree must never be reused). Unrecognised source -> pinned snapshot."""
    import importlib
    sys.path.insert(0, os.path.join(VERIF, "extract"))
    for modname, out in EXTRACTORS:
        try:
            mod = importlib.import_module(modname)
            write_if_changed(os.path.join(GEN, out), mod.main(REPO, GEN))
        except Exception:
            exp = os.path.join(EXPECTED, out)
            if os.path.exists(exp):
                write_if_changed(os.path.join(GEN, out), open(exp).read())


def run_extractor(ctx, name, module, outfile):
    """Run translator `module.main(REPO, GEN)` -> Gen/<outfile>. On failure the committed snapshot
    (extract/expected) is used so that the driver still builds, and the obligation is recorded."""
    path = os.path.join(GEN, outfile)
    exp = os.path.join(EXPECTED, outfile)
    try:
        with ctx.timer("extract"):
            text = module.main(REPO, GEN)
        write_if_changed(path, text)
        same = os.path.exists(exp) and open(exp).read() == text
        ctx.oblige("extract." + name, True, "" if same else "generated table differs from the committed snapshot of the pinned tree")
        ctx.cov.setdefault("gen_tables", {})[outfile] = "same-as-snapshot" if same else "differs-from-snapshot"
        return True, same
    except Exception as ex:  # unrecognised source shape
        ctx.oblige("extract." + name, False, "source shape not recognised: %s" % ex)
        if os.path.exists(exp):
            shutil.copyfile(exp, path)
        ctx.cov.setdefault("gen_tables", {})[outfile] = "unrecognised: %s" % ex
        return False, False


def gen_diff(outfile, maxlines=40):
    """Line diff between the committed snapshot and the freshly generated table."""
    import difflib
    try:
        a = open(os.path.join(EXPECTED, outfile)).read().splitlines()
        b = open(os.path.join(GEN, outfile)).read().splitlines()
    except FileNotFoundError:
        return []
    d = [l for l in difflib.unified_diff(a, b, "pinned", "current", lineterm="", n=0) if not l.startswith(("---", "+++", "@@"))]
    return d[:maxlines]


def ensure_driver(ctx, gen_files):
    """Build the model driver; if the freshly generated tables do not elaborate, fall back to the
    pinned snapshot (the model of the pinned tree) so that a search for a failing input can still run."""
    rc, text = lake_build(["chaimodel"])
    if rc == 0:
        return True
    ctx.notes.append("driver did not build with current Gen tables; falling back to pinned snapshot for the search")
    for g in gen_files:
        exp = os.path.join(EXPECTED, g)
        if os.path.exists(exp):
            shutil.copyfile(exp, os.path.join(GEN, g))
    rc, text = lake_build(["chaimodel"])
    return rc == 0


def split_model_line(line):
    """'model=X\\tspec=Y[\\ttags=..]' -> dict"""
    d = {}
    for part in line.split("\t"):
        if "=" in part:
            k, v = part.split("=", 1)
            d[k] = v
    return d


def conclude(ctx, failing_inputs_found):
    """Standard end-of-check rule: broken obligations with no concrete failing input are still violations."""
    broken = [(n, d) for (n, ok, d) in ctx.obligations if not ok]
    if broken and not failing_inputs_found and not ctx.violations:
        ctx.violation("obligation", {"failing_obligations": [{"name": n, "detail": d} for n, d in broken],
                                     "note": "no concrete failing input was found by the search; the property is no longer shown to hold"},
                      no_input=True)


def compare_streams(ctx, mode, cases, mout, iout, canon_impl=lambda x, line: x, canon_model=lambda x, line: x,
                    skip=lambda spec, model, line: False, nontrivial=lambda impl, line: True,
                    known=lambda line, spec, impl, model, tags: None, max_report=5, bucket=lambda line: line.split()[0]):
    """Generic differential verdict. Per case: impl vs spec decides a violation (unless `known` returns a
    known-finding tag that is listed); impl vs model measures the correspondence.  -> number of violations found"""
    found = model_diffs = skipped = known_hits = 0
    nt = set()
    if len(mout) != len(cases) or len(iout) != len(cases):
        ctx.oblige("streams complete (%s)" % mode, False, "model %d impl %d cases %d" % (len(mout), len(iout), len(cases)))
    for line, m, i in zip(cases, mout, iout):
        d = split_model_line(m)
        ctx.hist("kinds", bucket(line))
        if "spec" not in d:
            ctx.oblige("driver accepts case (%s)" % mode, False, "%s -> %s" % (line, m))
            continue
        spec_raw, model_raw, tags = d["spec"], d["model"], d.get("tags", "")
        if skip(spec_raw, model_raw, line):
            skipped += 1
            continue
        spec, model, impl = canon_model(spec_raw, line), canon_model(model_raw, line), canon_impl(i, line)
        ctx.hist("outcomes", impl.split()[0] if impl else "empty")
        if nontrivial(impl, line):
            nt.add(line)
        if impl != spec:
            tag = known(line, spec, impl, model, tags)
            if tag and ctx.known_finding(tag, "%s: %s" % (mode, line)):
                known_hits += 1
                if impl != model:
                    model_diffs += 1
                continue
            found += 1
            if found <= max_report:
                ctx.violation("input", {"mode": mode, "case": line, "expected_spec": spec_raw, "observed": i, "model_predicts": model_raw,
                                        "how_to_replay": "echo '%s' | build/harness/%s/<bin>   and   | lean/.lake/build/bin/chaimodel %s" % (line, mode, mode)})
        elif impl != model:
            model_diffs += 1
            if model_diffs <= 3:
                ctx.notes.append("model/impl differ (impl agrees with spec): %s model=%s impl=%s" % (line, model_raw, i))
    ctx.count("evaluations", len(cases))
    ctx.cov["distinct_nontrivial"] = ctx.cov.get("distinct_nontrivial", 0) + len(nt)
    ctx.count("skipped_outside_property", skipped)
    ctx.count("spec_disagreements", found)
    ctx.count("known_finding_cases", known_hits)
    ctx.count("model_only_disagreements", model_diffs)
    ctx.oblige("correspondence model≡impl (%s)" % mode, model_diffs == 0,
               "" if model_diffs == 0 else "%d cases where the model differs from the implementation" % model_diffs)
    return found
