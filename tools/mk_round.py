#!/usr/bin/env python3
# usage: tools/mk_round.py <prop> <n> "<hint>"  — scratch worktree /tmp/mut_<prop>_<n> of /repo with PROMPT.md (property text + hint) for a sub-agent
import json, os, subprocess, sys
prop, n, hint = sys.argv[1], sys.argv[2], (sys.argv[3] if len(sys.argv) > 3 else "")
wt = "/tmp/mut_%s_%s" % (prop, n)
here = os.path.dirname(os.path.abspath(__file__))
p = [json.loads(l) for l in open(os.path.join(here, "..", "properties.jsonl")) if l.strip()]
p = [x for x in p if x["id"] == prop][0]
text = p.get("title", "") + "\n\n" + p.get("statement", p.get("text", ""))
subprocess.check_call(["git", "-C", "/repo", "worktree", "add", "--detach", wt], stdout=subprocess.DEVNULL, stderr=subprocess.DEVNULL)
t = open(os.path.join(here, "mutant_prompt.md")).read().replace("{WT}", wt).replace("{PROP}", text).replace("{HINT}", hint)
open(os.path.join(wt, "PROMPT.md"), "w").write(t)
open(os.path.join(here, "prompts", "%s_%s.txt" % (prop, n)), "w").write(t)
print(wt)
