#!/bin/bash
# usage: tools/run_all.sh [quick|thorough]  — run every registered check on the current tree (sequentially), summarise
TIER=${1:-quick}
cd /verif
for c in $(python3 -c "import json; print(' '.join(x['property_id'] for x in json.load(open('MANIFEST.json'))['checks']))"); do
  timeout 7200 ./check $c --tier $TIER 2>&1 | grep -E "^VIOLATION|tier=" | tail -3
done
