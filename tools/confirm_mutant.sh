#!/bin/bash
# usage: tools/confirm_mutant.sh <worktree>  — re-confirm a sub-agent's mutant: suite passes with the change; demo fails with it and passes without it.
WT=$1
cd $WT || exit 2
git diff --stat -- include | tail -2
cmake --build _build -j 12 > /tmp/confirm_build.log 2>&1; echo "build rc=$?"
ctest --test-dir _build -j8 --timeout 900 2>&1 | grep "tests passed\|tests failed" 
cat mutant_out/run.sh | head -5
echo "--- demo WITH change:"; (cd $WT/mutant_out && timeout 600 sh run.sh > /tmp/confirm_with.log 2>&1; echo "rc=$?"; tail -3 /tmp/confirm_with.log)
git diff -- include > /tmp/confirm_patch.$$ && git apply -R /tmp/confirm_patch.$$
echo "--- demo WITHOUT change:"; (cd $WT/mutant_out && timeout 600 sh run.sh > /tmp/confirm_without.log 2>&1; echo "rc=$?"; tail -3 /tmp/confirm_without.log)
git apply /tmp/confirm_patch.$$ && rm -f /tmp/confirm_patch.$$
git diff --stat -- include | tail -1
