#!/usr/bin/env python3
# Regenerate MANIFEST.json from the META dict of every checks/cNN.py (single source of truth).
import importlib, json, os, sys
HERE = os.path.dirname(os.path.dirname(os.path.abspath(__file__)))
sys.path.insert(0, HERE); sys.path.insert(0, os.path.join(HERE, "lib")); sys.path.insert(0, os.path.join(HERE, "extract"))
props = [json.loads(l) for l in open(os.path.join(HERE, "properties.jsonl"))]
checks, na = [], []
PENDING = json.load(open(os.path.join(HERE, "tools", "pending.json")))
for p in props:
    pid = p["id"]
    path = os.path.join(HERE, "checks", pid.lower() + ".py")
    if os.path.exists(path):
        mod = importlib.import_module("checks." + pid.lower())
        m = mod.META
        checks.append({
            "property_id": pid,
            "quick_cmd": "./check %s --tier quick" % pid,
            "thorough_cmd": "./check %s --tier thorough" % pid,
            "evidence_file": "/verif/evidence/%s.json" % pid,
            "replay_cmd_template": "./check %s --replay {path}" % pid,
            "engine": "lean4+correspondence",
            "level_claimed": {"category": mod.LEVEL, "text": m["text"], "design_ref": m.get("design_ref", "DESIGN.md §6 " + pid)},
            "level_note": m["note"],
            "technique": m["technique"],
        })
    else:
        na.append({"property_id": pid, "reason": PENDING.get(pid, "check not built yet; see DESIGN.md §6 " + pid)})
man = {
    "version": 1,
    "setup_cmd": "./setup",
    "hooks": {
        "guard": "CHAISCRIPT_VERIF",
        "enable": "harnesses are compiled from /repo/include with -DCHAISCRIPT_VERIF by lib/common.py:harness_build",
        "baseline_off_cmd": "cmake --build /repo/_build -j 14 && ctest --test-dir /repo/_build -j8 --timeout 900",
        "source_commits": json.load(open(os.path.join(HERE, "tools", "hook_commits.json"))),
        "add_only": True,
    },
    "engines": [{"name": "lean4+correspondence", "path": "/verif/lean", "serves_properties": [c["property_id"] for c in checks],
                 "kind_free_text": "Lean 4.33 library ChaiVerif (models, specs, property theorems; tables regenerated from /repo by /verif/extract) + compiled driver chaimodel diffed against C++ harnesses built from /repo's working tree"}],
    "checks": checks,
    "not_applicable": na,
    "notes": "All checks: ./check <id> [--tier quick|thorough]. Genuine defects repaired in /repo by 'fix:' commits are listed in known_findings.json with status fixed.",
}
json.dump(man, open(os.path.join(HERE, "MANIFEST.json"), "w"), indent=1)
print("checks:", [c["property_id"] for c in checks], "not_applicable:", [n["property_id"] for n in na])
