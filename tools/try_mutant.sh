#!/bin/bash
# usage: tools/try_mutant.sh <patch.diff (absolute path)> <prop> [tier]
#   applies the change to a scratch worktree of /repo (so that checks running elsewhere against /repo are not disturbed), runs the check
#   against it (VERIF_REPO), removes the worktree.  Equivalent to: git -C /repo apply <file>; ./check ...; git -C /repo checkout -- .
set -u
P=$1; ID=$2; TIER=${3:-quick}
WT=/tmp/try_repo_$$
git -C /repo worktree add --detach "$WT" > /dev/null 2>&1 || { echo "cannot create worktree"; exit 2; }
( cd "$WT" && git apply "$P" ) || { echo "patch does not apply"; git -C /repo worktree remove --force "$WT"; exit 2; }
cd /verif && VERIF_REPO="$WT" ./check $ID --tier $TIER > /tmp/try_mutant.out 2>&1; RC=$?
git -C /repo worktree remove --force "$WT"
python3 -c "import sys; sys.path.insert(0,'/verif/lib'); import common; common.refresh_all_gen()"
echo "exit=$RC"; grep -c "^VIOLATION" /tmp/try_mutant.out; grep "^VIOLATION\|^KNOWN\|tier=" /tmp/try_mutant.out | head -8
