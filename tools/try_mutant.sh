#!/bin/bash
# usage: tools/try_mutant.sh <patch.diff> <prop> [tier]   — apply to /repo, run the check, undo.
set -u
P=$1; ID=$2; TIER=${3:-quick}
cd /repo && git apply "$P" || { echo "patch does not apply"; exit 2; }
cd /verif && ./check $ID --tier $TIER > /tmp/try_mutant.out 2>&1; RC=$?
cd /repo && git checkout -- . 
python3 -c "import sys; sys.path.insert(0,'/verif/lib'); import common; common.refresh_all_gen()"
echo "exit=$RC"; grep -c "^VIOLATION" /tmp/try_mutant.out; grep "^VIOLATION\|^KNOWN\|tier=" /tmp/try_mutant.out | head -8
