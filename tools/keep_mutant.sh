#!/bin/bash
# usage: tools/keep_mutant.sh <worktree> <seeded-id> <prop> "<needs>" "<caught-by>"
WT=$1; ID=$2; PROP=$3; NEEDS=$4; CAUGHT=$5
D=/verif/seeded/$ID; mkdir -p $D
cp $WT/mutant_out/patch.diff $D/patch.diff
for f in demo.cpp demo.chai run.sh notes.md; do [ -f $WT/mutant_out/$f ] && cp $WT/mutant_out/$f $D/; done
python3 - "$D" "$PROP" "$NEEDS" "$CAUGHT" "$WT" <<'PY'
import json,sys
d,prop,needs,caught,wt=sys.argv[1:6]
json.dump({"property":prop,"breaks":prop,"needs_to_manifest":needs,
 "confirmed":"tools/confirm_mutant.sh %s: builds, ctest 295/295 pass with the change; demo fails with it and passes without it"%wt,
 "checks_run":"tools/try_mutant.sh seeded/<id>/patch.diff %s"%prop,"caught_by":caught,"source":"independent sub-agent given only the property text"},
 open(d+"/meta.json","w"),indent=1)
PY
git -C /repo worktree remove --force $WT; echo kept $ID
