# C11: programs over the instrumented C++ class T of harness/lifetime.cpp, as a list of abstract ownership operations that is printed
# both as ChaiScript (for the engine) and as M-RC operations (for the Lean model).  Everything random comes from the SplitMix64 passed in.


class LifeGen:
    def __init__(self, rng):
        self.rng = rng
        self.n = 0
        self.tag = 100
        self.frames = [{"objs": [], "vecs": [], "clos": []}]
        self.script = []          # ChaiScript statements (strings; "{" and "}" are emitted as block delimiters)
        self.model = []           # M-RC driver ops
        self.cp = 0
        self.hist = {}
        self.nboom = 0
        self.fault_at = 1000000

    def note(self, k):
        self.hist[k] = self.hist.get(k, 0) + 1

    def fresh(self, p):
        self.n += 1
        return "%s%d" % (p, self.n)

    def objs(self):
        return [o for f in self.frames for o in f["objs"]]

    def vecs(self):
        return [v for f in self.frames for v in f["vecs"]]

    def checkpoint(self):
        self.cp += 1
        self.script.append("cp(%d)" % self.cp)
        self.model.append("cp %d" % self.cp)

    def use(self, y):
        r = self.rng
        self.note("use")
        self.script.append(r.choice(["pr(%s.get())", "pr(by_value(%s))", "pr(by_cref(%s))", "pr(by_ref(%s))", "pr(by_ptr(%s))", "pr(by_sp(%s))", "pr(doubled(%s).get())",
                                     "pr(%s.ident() > 0)", "pr(pass(%s).get())", "sink(%s)", "pr(T(%s).get())"]) % y)

    def stmt(self, depth):
        r = self.rng
        k = r.below(16)
        os_ = self.objs()
        if k <= 2 or not os_:
            x = self.fresh("t")
            self.tag += 1
            form = r.choice(["var %s = T(%d)", "var %s = make_value(%d)", "var %s = make_sp(%d)", "var %s = mk(%d)", "var %s = make_up(%d)" if False else "var %s = T(%d)"])
            self.note("create")
            self.script.append(form % (x, self.tag))
            self.model.append("new %s %d" % (x, self.tag))
            self.frames[-1]["objs"].append(x)
        elif k == 3:
            x, y = self.fresh("t"), r.choice(os_)
            self.note("copy")
            self.script.append(r.choice(["var %s = %s", "var %s = T(%s)", "auto %s = %s"]) % (x, y))
            self.model.append("copy %s %s" % (x, y))
            self.frames[-1]["objs"].append(x)
        elif k == 4:
            x, y = self.fresh("r"), r.choice(os_)
            self.note("reference")
            self.script.append("var &%s = %s" % (x, y))
            self.model.append("ref %s %s" % (x, y))
            self.frames[-1]["objs"].append(x)
        elif k == 5 and depth < 3:
            self.note("block")
            self.script.append("{")
            self.model.append("push")
            self.frames.append({"objs": [], "vecs": [], "clos": []})
            for _ in range(r.range(1, 4)):
                self.stmt(depth + 1)
            self.frames.pop()
            self.script.append("}")
            self.model.append("pop")
            self.checkpoint()
        elif k == 6:
            y = r.choice(os_)
            self.note("keep")
            self.script.append("keep(%s)" % y)
            self.model.append("keep %s" % y)
        elif k == 7:
            self.note("release_all")
            self.script.append("release_all()")
            self.model.append("relall")
            self.checkpoint()
        elif k == 8:
            v = self.fresh("v")
            self.note("vector")
            self.script.append("var %s = []" % v)
            self.model.append("vec %s" % v)
            self.frames[-1]["vecs"].append(v)
        elif k == 9 and self.vecs():
            v, y = r.choice(self.vecs()), r.choice(os_)
            if r.chance(1, 2):
                self.note("push_back")
                self.script.append("%s.push_back(%s)" % (v, y))
                self.model.append("vpush %s %s" % (v, y))
            else:
                self.note("push_back_ref")
                self.script.append("%s.push_back_ref(%s)" % (v, y))
                self.model.append("vref %s %s" % (v, y))
        elif k == 10:
            f, y = self.fresh("f"), r.choice(os_)
            self.note("capture")
            self.script.append("var %s = fun[%s]() { %s.get() }" % (f, y, y))
            self.model.append("clo %s %s" % (f, y))
            self.frames[-1]["clos"].append(f)
        elif k == 11 and any(fr["clos"] for fr in self.frames):
            f = r.choice([c for fr in self.frames for c in fr["clos"]])
            self.script.append("pr(%s())" % f)
        elif k == 12 and depth < 3:
            # a scope left by an exception: everything declared in it must be released exactly as by a normal exit
            self.note("scope-left-by-exception")
            self.script.append("try {")
            self.model.append("push")
            self.frames.append({"objs": [], "vecs": [], "clos": []})
            for _ in range(r.range(1, 3)):
                self.stmt(depth + 1)
            throws = r.chance(2, 3) and self.fault_at == 1000000          # (decided here: a nested try may have claimed the one fault meanwhile)
            if throws:
                self.fault_at = self.nboom
            self.nboom += 1
            self.script.append("boom()")
            if throws:
                # the rest of the body is dead code for the model, but it is in the script
                mark = len(self.model)
                for _ in range(r.range(0, 2)):
                    self.stmt(depth + 1)
                del self.model[mark:]
            else:
                for _ in range(r.range(0, 2)):
                    self.stmt(depth + 1)
            self.frames.pop()
            self.script.append("} catch(e) { }")
            self.model.append("pop")
            self.checkpoint()
        elif k == 13 and depth < 3:
            # a loop body declares an object per iteration; a closure declared outside captures the last one
            self.note("loop-capture")
            f = self.fresh("f")
            self.tag += 1
            t0 = self.tag
            self.tag += 1
            self.script.append("var %s = fun() { 0 }" % f)
            self.script.append("for (var i = 0; i < 2; ++i) { var lt = T(%d + i); %s = fun[lt]() { lt.get() } }" % (t0, f))
            self.script.append("pr(%s())" % f)
            # model: the object of the last iteration (tag t0+1) stays referenced by f (declared in the current frame)
            self.model.append("new lt%d %d" % (t0, t0 + 1))
            self.frames[-1]["clos"].append(f)
            self.checkpoint()
        else:
            self.use(r.choice(os_))
            if r.chance(1, 3):
                self.checkpoint()

    def program(self):
        for _ in range(self.rng.range(4, 10)):
            self.stmt(0)
        self.checkpoint()
        text = "def mk(k) { var t = T(k); return t }; def pass(x) { return x }; def sink(x) { x.get() }; "
        out = []
        for s in self.script:
            out.append(s)
        # join with ';' except around block delimiters
        joined = ""
        for s in out:
            if s in ("{", "try {"):
                joined += s + " "
            elif s.startswith("}"):
                joined = joined.rstrip("; ") + " " + s + "; "
            else:
                joined += s + "; "
        return text + joined, "; ".join(self.model), self.fault_at
