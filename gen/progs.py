# Grammar-directed generator of core-language programs as s-expressions (the syntax Drv/Chai.lean reads).
# Mostly-valid programs (well-scoped, well-typed, terminating) plus a small rate of deliberate errors.
# Everything random comes from the SplitMix64 passed in.


class Gen:
    def __init__(self, rng, feat=None, maxdepth=3):
        self.rng = rng
        self.maxdepth = maxdepth
        self.next_var = 1
        self.next_fn = 1
        self.scopes = [{}]            # name -> type ('int' | 'bool' | 'fn<k>')
        self.funs = {}                # fname -> arity (defined at top level so far)
        self.in_fn = 0
        self.in_loop = 0
        self.ncb = 0                  # number of callback call sites emitted (upper bound on invocations is dynamic)
        self.feat = dict(tryc=True, fns=True, lambdas=True, cbs=True, errors=True, refs=True, vecs=False, globals=False, strs=False, trybias=False, optbias=False, evals=False, overloads=True, refassign=False, exctypes=False)
        if feat:
            self.feat.update(feat)
        self.hist = {}

    # ---------------------------------------------------------------- helpers
    def note(self, k):
        self.hist[k] = self.hist.get(k, 0) + 1

    def fresh_declared(self, ty):
        n = self.fresh()
        self.declare(n, ty)
        return n

    def fresh(self):
        n = "x%d" % self.next_var
        self.next_var += 1
        return n

    def vars_of(self, ty, writable=False):
        out = []
        for sc in self.scopes:
            for n, t in sc.items():
                if t == ty or (ty == "int" and t == "ctr" and not writable):
                    out.append(n)
        return out

    def declare(self, n, ty):
        self.scopes[-1][n] = ty

    # ---------------------------------------------------------------- expressions
    def int_expr(self, d=0):
        r = self.rng
        k = r.below(10)
        vs = self.vars_of("int")
        if k < 3 or d >= 2:
            if vs and r.chance(2, 3):
                return "(id %s)" % r.choice(vs)
            return "(int %d)" % r.choice([0, 1, 2, 3, 5, 7, -1, -4, 10, r.range(-20, 20)])
        if k < 6:
            return "(bin %s %s %s)" % (r.choice(["+", "-", "*", "+", "-"]), self.int_expr(d + 1), self.int_expr(d + 1))
        if k == 6:
            return "(pre neg %s)" % self.int_expr(d + 1)
        if k == 7 and self.feat["cbs"]:
            self.ncb += 1
            self.note("cb")
            return "(cb %d %s)" % (r.below(4), self.int_expr(d + 1))
        if k == 8 and self.feat["fns"]:
            fs = [f for f, a in self.funs.items() if a <= 2]
            if fs:
                f = r.choice(fs)
                self.note("call")
                return "(call (fid %s) %s)" % (f, " ".join(self.int_expr(d + 1) for _ in range(self.funs[f])))
        if k == 9 and vs and self.feat["errors"] and r.chance(1, 6):
            self.note("err-expr")
            return "(bin / %s (int 0))" % self.int_expr(d + 1)      # arithmetic_error
        return "(bin %s %s %s)" % (r.choice(["/", "%"]), self.int_expr(d + 1), "(int %d)" % r.choice([1, 2, 3, 7]))

    def bool_expr(self, d=0):
        r = self.rng
        k = r.below(8)
        vs = self.vars_of("bool")
        if d < 2 and r.chance(1, 7):
            # a logical operator whose RIGHT operand is a literal (absorbing or neutral): the left operand must still be evaluated —
            # for its effect (a callback, an assignment), for its error (not a boolean, division by zero), or just for its value
            self.note("logic-literal-right")
            c = r.below(5)
            wb = self.vars_of("bool", writable=True)
            if c == 0 and self.feat["cbs"]:
                self.ncb += 1
                left = "(bin %s (cb %d %s) (int %d))" % (r.choice(["==", "!=", "<"]), r.below(4), self.int_expr(2), r.below(4))
            elif c == 1 and wb:
                left = "(pre not (id %s))" % r.choice(wb)               # (an assignment cannot be an operand: `(x = b)` does not parse)
            elif c == 2 and self.feat["errors"] and r.chance(1, 2):
                left = self.int_expr(2)                              # Condition not boolean
            elif c == 3 and self.feat["errors"] and r.chance(1, 2):
                left = "(bin == (bin / %s (int 0)) (int 1))" % self.int_expr(2)
            else:
                left = self.bool_expr(d + 1)
            return "(%s %s (bool %d))" % (r.choice(["and", "or"]), left, r.below(2))
        if k == 0 or d >= 2:
            if vs and r.chance(1, 2):
                return "(id %s)" % r.choice(vs)
            return "(bool %d)" % r.below(2)
        if k < 4:
            return "(bin %s %s %s)" % (r.choice(["<", "<=", ">", ">=", "==", "!="]), self.int_expr(d + 1), self.int_expr(d + 1))
        if k == 4:
            return "(and %s %s)" % (self.bool_expr(d + 1), self.bool_expr(d + 1))
        if k == 5:
            return "(or %s %s)" % (self.bool_expr(d + 1), self.bool_expr(d + 1))
        if k == 6:
            return "(pre not %s)" % self.bool_expr(d + 1)
        return "(bin %s %s %s)" % (r.choice(["==", "!="]), self.bool_expr(d + 1), self.bool_expr(d + 1))

    # ---------------------------------------------------------------- statements
    def block(self, depth, n=None, extra_first=None):
        self.scopes.append({})
        stmts = list(extra_first or [])
        for _ in range(n if n is not None else self.rng.range(1, 3)):
            stmts.append(self.stmt(depth + 1))
        self.scopes.pop()
        return "(block %s)" % " ".join(stmts)

    def stmt(self, depth):
        r = self.rng
        k = r.below(20)
        ints = self.vars_of("int", writable=True)
        if depth >= self.maxdepth:
            k = r.choice([0, 1, 2, 3, 4])
        elif self.feat["optbias"] and r.chance(1, 3):
            return self.opt_stmt(depth)
        elif self.feat["evals"] and depth == 0 and not self.in_fn and r.chance(1, 3):
            return self.hint_scenario()
        if k == 0 or (k < 3 and not ints):
            n = self.fresh()
            if r.chance(1, 5):
                # declared first, given its value by a later `=` (Equation's first-assignment path: the right-hand side is cloned, a
                # temporary is adopted), then used like any other variable
                self.note("late-init")
                first = self.int_expr() if r.chance(1, 2) else "(bin + %s %s)" % (self.int_expr(1), self.int_expr(1))
                self.declare(n, "int")
                more = r.choice(["(eq = (id %s) %s)" % (n, self.int_expr(1)), "(eq += (id %s) (int 1))" % n, "(pre inc (id %s))" % n,
                                 "(print (id %s))" % n, "(decl %s (id %s))" % (self.fresh_declared("int"), n)])
                return "(var %s) (eq = (id %s) %s) %s (print (id %s))" % (n, n, first, more, n)
            if r.chance(1, 4):
                e = self.bool_expr()
                self.declare(n, "bool")
                return "(decl %s %s)" % (n, e)
            e = self.int_expr()
            self.declare(n, "int")
            return "(decl %s %s)" % (n, e)
        if k == 1:
            self.note("assign")
            if self.feat["refassign"] and r.chance(1, 5):
                # `:=` rebinds the name to the right-hand side's value; on a parameter or reference it goes through to what they alias
                self.note("ref-assign")
                tgt = r.choice(self.vars_of("int"))
                return "(try (block (eq := (id %s) %s)) (catch %s (block (print (int -8)))))" % (tgt, self.int_expr(), self.fresh())
            return "(eq %s (id %s) %s)" % (r.choice(["=", "+=", "-=", "*=", "="]), r.choice(ints), self.int_expr())
        if k == 2:
            return "(pre %s (id %s))" % (r.choice(["inc", "dec"]), r.choice(ints))
        if k in (3, 4):
            self.note("print")
            anys = self.vars_of("any")
            if anys and r.chance(1, 3):
                return "(print (id %s))" % r.choice(anys)
            return "(print %s)" % (self.int_expr() if r.chance(3, 4) else self.bool_expr())
        if k == 5:
            self.note("if")
            if r.chance(1, 2):
                return "(if %s %s %s)" % (self.bool_expr(), self.block(depth), self.block(depth))
            return "(if %s %s)" % (self.bool_expr(), self.block(depth))
        if k == 6:
            self.note("while")
            c = self.fresh()
            self.scopes.append({c: "ctr"})
            self.in_loop += 1
            body = self.block(depth, extra_first=["(pre inc (id %s))" % c])
            self.in_loop -= 1
            self.scopes.pop()
            return "(block (decl %s (int 0)) (while (bin < (id %s) (int %d)) %s))" % (c, c, r.range(1, 3), body)
        if k == 7:
            self.note("for")
            c = self.fresh()
            self.scopes.append({c: "ctr"})
            self.in_loop += 1
            body = self.block(depth)
            self.in_loop -= 1
            self.scopes.pop()
            lim = r.range(0, 3)
            if r.chance(1, 2):
                return "(for (decl %s (int 0)) (bin < (id %s) (int %d)) (pre inc (id %s)) %s)" % (c, c, lim, c, body)     # the optimizer's pattern
            return "(for (decl %s (int %d)) (bin > (id %s) (int 0)) (pre dec (id %s)) %s)" % (c, lim, c, c, body)
        if k == 8:
            if r.chance(1, 3):
                # a declaration in an unusual position: the condition of an if, or a call argument; it belongs to the ENCLOSING scope
                self.note("decl-odd-position")
                n = self.fresh()
                if r.chance(1, 2):
                    st = "(if (decl %s %s) %s)" % (n, self.bool_expr(1), self.block(depth))
                    self.declare(n, "bool")
                else:
                    st = "(print (decl %s %s))" % (n, self.int_expr(1))
                    self.declare(n, "int")
                if r.chance(1, 2):
                    # alone in a block of its own (the block must keep its scope), possibly re-entered by a loop
                    self.scopes[-1].pop(n, None)
                    if r.chance(1, 2) and depth < self.maxdepth:
                        c = self.fresh()
                        return "(for (decl %s (int 0)) (bin < (id %s) (int 2)) (pre inc (id %s)) (block %s))" % (c, c, c, st)
                    return "(block %s)" % st
                return st
            return self.block(depth)
        if k == 9 and self.in_loop and depth > 0:
            self.note("break/continue")
            return "(if %s (block (%s)))" % (self.bool_expr(), r.choice(["break", "continue"]))
        if k == 10 and self.in_fn:
            self.note("return")
            return "(if %s (block (return %s)))" % (self.bool_expr(), self.int_expr())
        if (k in (11, 12) or (k in (3, 8) and self.feat["trybias"])) and self.feat["tryc"]:
            return self.try_stmt(depth)
        if (k == 13 or (k in (18, 19) and self.feat["trybias"])) and self.feat["tryc"]:
            self.note("throw")
            return "(if %s (block (throw %s)))" % (self.bool_expr(), self.thrown_expr())
        if k == 14 and self.feat["cbs"]:
            self.ncb += 1
            self.note("cb")
            return "(cb %d %s)" % (r.below(4), " ".join(self.int_expr() for _ in range(r.range(0, 2))))
        if k == 15 and self.feat["fns"] and depth == 0 and not self.in_fn:
            if self.feat["overloads"] and r.chance(1, 3):
                return self.overload_group()
            return self.def_stmt()
        if k == 16 and self.feat["lambdas"]:
            return self.lambda_stmt(depth)
        if k == 17 and self.feat["errors"] and r.chance(1, 4):
            self.note("err-stmt")
            return r.choice(["(print (id x999))", "(if (int 1) (block (print (int 1))))", "(call (int 3) (int 4))", "(eq = (int 1) (int 2))",
                             "(decl %s (int 1))" % (r.choice(list(self.scopes[-1])) if self.scopes[-1] else "x998")])
        if k == 18 and self.feat["refs"] and self.feat["cbs"] and (not ints or r.chance(1, 3)):
            # a reference bound to a TEMPORARY (a callback's by-value result), then copied and the copy changed: the reference must keep its value
            self.note("ref-to-temporary")
            self.ncb += 1
            n = self.fresh()
            self.declare(n, "int")
            y = self.fresh_declared("int")
            return "(eq = (ref %s) (cb %d %s)) (decl %s (id %s)) (eq += (id %s) (int 1)) (print (id %s)) (print (id %s))" % (
                n, r.below(4), self.int_expr(2), y, n, y, n, y)
        if k == 18 and self.feat["refs"] and ints:
            self.note("ref")
            n = self.fresh()
            self.declare(n, "int")
            return "(eq = (ref %s) (id %s))" % (n, r.choice(ints))
        return "(print %s)" % self.int_expr()

    def const_bool(self, d=0):
        r = self.rng
        k = r.below(6)
        if k < 2 or d >= 2:
            return "(bool %d)" % r.below(2)
        if k == 2:
            return "(pre not %s)" % self.const_bool(d + 1)
        if k == 3:
            return "(%s %s %s)" % (r.choice(["and", "or"]), self.const_bool(d + 1), self.const_bool(d + 1))
        return "(bin %s (int %d) (int %d))" % (r.choice(["<", "==", "!=", ">="]), r.range(-3, 3), r.range(-3, 3))

    def const_int(self, d=0):
        r = self.rng
        if d >= 2 or r.chance(1, 2):
            return "(int %d)" % r.range(-3, 6)
        return "(bin %s %s %s)" % (r.choice(["+", "-", "*", "/", "%"]), self.const_int(d + 1), self.const_int(d + 1))

    def opt_stmt(self, depth):
        """statements shaped to trigger the optimizer's passes"""
        r = self.rng
        k = r.below(10)
        ints = self.vars_of("int")
        if k == 0:
            self.note("opt-if-const")
            if r.chance(1, 2):
                return "(if %s %s %s)" % (self.const_bool(), self.block(depth), self.block(depth))
            return "(if %s %s)" % (self.const_bool(), self.block(depth))
        if k == 1:
            self.note("opt-dead-code")
            # a block sprinkled with constants and bare names, declaring nothing
            self.scopes.append({})
            items = []
            for _ in range(r.range(1, 4)):
                c = r.below(5)
                if c == 0:
                    items.append(self.const_int())
                elif c == 1:
                    items.append(self.const_bool())
                elif c == 2 and ints:
                    items.append("(id %s)" % r.choice(ints))
                elif c == 3 and self.feat["cbs"]:
                    items.append("(cb %d %s)" % (r.below(4), self.int_expr()))
                else:
                    items.append("(print %s)" % self.int_expr())
            self.scopes.pop()
            return "(block %s)" % " ".join(items)
        if k == 2:
            self.note("opt-nested-blocks")
            return "(block (block %s) %s)" % (self.stmt(depth + 2), self.stmt(depth + 2))
        if k in (3, 4, 5):
            # the counting loop the For_Loop pass compiles; bounds may be foldable expressions, the counter may be written and captured
            self.note("opt-for")
            c = self.fresh()
            lo, hi = r.choice(["(int 0)", "(int 1)", self.const_int()]), r.choice(["(int 2)", "(int 3)", self.const_int()])
            pre = []
            self.scopes.append({c: "ctr"})
            self.in_loop += 1
            extra = []
            fn = None
            if r.chance(1, 4):
                # the body may move the counter forward (never backward: the loop must end)
                extra.append(r.choice(["(pre inc (id %s))", "(eq += (id %s) (int 1))", "(eq += (id %s) (int 2))"]) % c)
            if self.feat["lambdas"] and r.chance(1, 2):
                # a closure over the loop variable that outlives the loop
                self.note("opt-for-capture")
                fn = self.fresh()
                pre.append("(decl %s (lambda () () (block (int 0))))" % fn)
                extra.append("(eq = (id %s) (lambda (%s) () (block (id %s))))" % (fn, c, c))
            body = self.block(depth, extra_first=extra, n=r.range(0, 2))
            self.in_loop -= 1
            self.scopes.pop()
            loop = "(for (decl %s %s) (bin < (id %s) %s) (pre inc (id %s)) %s)" % (c, lo, c, hi, c, body)
            if fn:
                return "(block %s %s (print (call (id %s))))" % (" ".join(pre), loop, fn)
            return loop
        if k == 6 and self.feat["fns"]:
            fs = [f for f, a in self.funs.items() if a <= 2]
            if fs:
                self.note("opt-unused-call")
                f = r.choice(fs)
                return "(block (call (fid %s) %s) %s)" % (f, " ".join(self.int_expr() for _ in range(self.funs[f])), self.stmt(depth + 2))
        if k == 8 and self.feat["fns"] and depth == 0 and not self.in_fn:
            # a counting loop re-entered while an earlier activation of the same loop is still running (recursion from its body)
            self.note("opt-for-reentered")
            f = "f%d" % self.next_fn
            self.next_fn += 1
            d, acc, c = self.fresh(), self.fresh(), self.fresh()
            lim = r.range(2, 3)                     # (not registered in self.funs: other code must not call it with a large depth)
            return ("(block (noop)) (def %s (%s) (block (decl %s (int 0)) (for (decl %s (int 0)) (bin < (id %s) (int %d)) (pre inc (id %s)) "
                    "(block (if (bin > (id %s) (int 0)) (block (eq += (id %s) (call (fid %s) (bin - (id %s) (int 1)))))) (eq += (id %s) (bin + (id %s) (int 1))) (print (id %s)))) (id %s))) "
                    "(print (call (fid %s) (int %d)))" % (f, d, acc, c, c, lim, c, d, acc, f, d, acc, c, c, acc, f, r.range(1, 2)))
        if k == 7:
            self.note("opt-while-single")
            c = self.fresh()
            return "(block (decl %s (int 0)) (while (bin < (pre inc (id %s)) (int %d)) (block (print (id %s)))))" % (c, c, r.range(1, 3), c)
        self.note("opt-const-expr")
        return "(print %s)" % (self.const_int() if r.chance(1, 2) else self.const_bool())

    def hint_scenario(self, form=None):
        """one piece of code evaluated several times under different arrangements of local variables: a declaration made by
        eval() inside a function or loop (invisible to the parser), read through a name that may also be an outer local or a function"""
        r = self.rng
        self.note("hint-scenario")
        fs = list(self.funs)
        name = self.fresh() if (not fs or r.chance(1, 2)) else r.choice(fs)         # a fresh variable, or the name of a function
        read = "(try (block (print (id %s))) (catch %s (block (print (int -1)))))" % (name, self.fresh())
        val = r.choice([100, 7, 42])
        form = r.below(10) if form is None else form
        if form >= 8:
            # shift AND shadow: between two evaluations of the same read, an eval()-made declaration in front shifts the slot of the outer variable
            # (so the cached slot holds another name) and a second eval()-made declaration gives the inner block a variable of the same name:
            # the stale hint must be dropped and the search must start again from the innermost scope
            self.note("hint-shift-and-shadow")
            f = "f%d" % self.next_fn
            self.next_fn += 1
            b, x, y, keep = self.fresh(), self.fresh(), self.fresh(), self.fresh()
            self.funs[f] = 1
            shift = "(if (bin == (id %s) (int 1)) (block (evalstr (decl %s (int 0)))))" % (b, y)
            shadow = "(if (bin == (id %s) (int 1)) (block (evalstr (decl %s (int %d)))))" % (b, x, val)
            if form == 9:      # the shadowing declaration is ordinary code in a conditional the parser cannot resolve either
                shadow = "(if (bin == (id %s) (int 1)) (block (evalstr (decl %s (int %d)))))" % (b, x, val + 1)
            body = ("(block %s (decl %s (int 1)) (block (decl %s (int 0)) %s (print (id %s)) (eq += (id %s) (int 1)) (print (id %s))) (print (id %s)) (id %s))"
                    % (shift, x, keep, shadow, x, x, x, x, x))
            calls = " ".join("(print (call (fid %s) (int %d)))" % (f, v) for v in r.choice([[0, 1], [0, 1, 0], [1, 0, 1], [0, 0, 1, 1]]))
            return "(block (noop)) (def %s (%s) %s) %s" % (f, b, body, calls)
        if form >= 6:
            # direct shadowing: an inner block declares the NAME of a variable of the enclosing block (at the same slot of its scope);
            # reads and writes in the inner block, evaluated again and again (function called several times / loop), must reach the inner one
            self.note("hint-shadow")
            a, acc, k = self.fresh(), self.fresh(), self.fresh()
            inner = "(block (decl %s (int %d)) (print (id %s)) (eq += (id %s) (int 1)) (eq += (id %s) (id %s)))" % (a, val, a, a, acc, a)
            if form == 6:
                f = "f%d" % self.next_fn
                self.next_fn += 1
                self.funs[f] = 0
                body = "(block (decl %s (int 1)) (decl %s (int 0)) %s (print (id %s)) (bin + (id %s) (id %s)))" % (a, acc, inner, a, a, acc)
                calls = " ".join("(print (call (fid %s)))" % f for _ in range(r.range(2, 4)))
                return "(block (noop)) (def %s () %s) %s" % (f, body, calls)
            return ("(block (decl %s (int 1)) (decl %s (int 0)) (decl %s (int 0)) (while (bin < (id %s) (int 3)) (block (pre inc (id %s)) %s)) (print (id %s)) (print (id %s)))"
                    % (a, acc, k, k, k, inner, a, acc))
        if form >= 4:
            # a declaration made by eval() in front of ordinary declarations: the slots of the later variables shift between calls
            self.note("hint-slot-shift")
            f = "f%d" % self.next_fn
            self.next_fn += 1
            b, a1, a2 = self.fresh(), self.fresh(), self.fresh()
            h = name if not name.startswith("f") else self.fresh()
            if r.chance(1, 2):
                # names that are prefixes of one another: the variable found in a stale slot resembles the one looked up
                self.note("hint-slot-shift-prefix-names")
                a1 = a2 + "3"
                h = a1 + "4"
            self.funs[f] = 1
            body = ("(block (if (bin == (id %s) (int 1)) (block (evalstr (decl %s (int %d))))) (decl %s (int 1)) (decl %s (bin + (id %s) (int 1))) "
                    "(print (id %s)) (print (id %s)) (bin + (id %s) (id %s)))" % (b, h, val, a1, a2, a1, a1, a2, a1, a2))
            calls = " ".join("(print (call (fid %s) (int %d)))" % (f, r.choice([0, 1, 1, 2])) for _ in range(r.range(2, 4)))
            return "(block (noop)) (def %s (%s) %s) %s" % (f, b, body, calls)
        if form == 3:
            # a loop whose body is evaluated before and after the declaration appears in the loop's scope
            self.note("hint-loop")
            k = self.fresh()
            when = r.range(1, 2)
            body = ["(pre inc (id %s))" % k, read, "(if (bin == (id %s) (int %d)) (block (evalstr (decl %s (int %d)))))" % (k, when, name, val)]
            if r.chance(1, 2):
                body[1], body[2] = body[2], body[1]
            return "(block (decl %s (int 0)) (while (bin < (id %s) (int 3)) (block %s)))" % (k, k, " ".join(body))
        f = "f%d" % self.next_fn
        self.next_fn += 1
        b = self.fresh()
        cond = "(if (bin == (id %s) (int 1)) (block (evalstr (decl %s (int %d)))))" % (b, name, val)
        if form == 0:
            body = "(block %s %s (int 0))" % (cond, read)
        elif form == 1:
            # an outer local of the same name, the read sits in an inner scope that the declaration lands in
            self.note("hint-shadow")
            z = self.fresh()
            body = "(block (decl %s (int 1)) (block (decl %s (int 0)) %s %s) (int 0))" % (name, z, cond, read)
        else:
            # recursion: the same body at different depths, declaration only at some
            self.note("hint-recursion")
            body = "(block %s %s (if (bin > (id %s) (int 0)) (block (call (fid %s) (bin - (id %s) (int 1))))) %s (int 0))" % (cond, read, b, f, b, read)
        self.funs[f] = 1
        calls = " ".join("(call (fid %s) (int %d))" % (f, r.choice([0, 1, 1, 2])) for _ in range(r.range(2, 4)))
        return "(block (noop)) (def %s (%s) %s) %s" % (f, b, body, calls)

    def thrown_expr(self):
        r = self.rng
        k = r.below(6)
        if k == 0 and self.feat["strs"]:
            return "(str %d)" % r.below(4)
        if k <= 3:
            return self.int_expr()
        return self.bool_expr()

    def try_stmt(self, depth):
        r = self.rng
        self.note("try")
        body = self.block(depth, extra_first=(["(throw %s)" % self.thrown_expr()] if r.chance(1, 3) else None))
        clauses = []
        for _ in range(r.choice([0, 1, 1, 1, 2])):
            form = r.below(4)
            if form == 0:
                clauses.append("(catch %s)" % self.block(depth))
                break                                    # an untyped bare clause catches everything: later clauses are dead
            n = self.fresh()
            ty = r.choice([None, "int", "bool", "int"] + (["string"] if self.feat["strs"] else [])
                          + (["runtime_error", "out_of_range", "logic_error", "eval_error", "exception", "runtime_error", "eval_error"] if self.feat["cbs"] and self.feat["exctypes"] else []))
            self.scopes.append({n: {None: "any", "int": "ctr", "bool": "bool", "string": "any"}.get(ty, "any")})      # a caught value is const: read-only
            blk = self.block(depth)
            self.scopes.pop()
            clauses.append("(catch %s %s)" % (n, blk) if ty is None else "(catch %s %s %s)" % (n, ty, blk))
            if ty is None:
                break
        if r.chance(1, 3) or not clauses:
            clauses.append("(finally %s)" % self.block(depth))
        return "(try %s %s)" % (body, " ".join(clauses))

    def def_stmt(self):
        r = self.rng
        self.note("def")
        f = "f%d" % self.next_fn
        self.next_fn += 1
        ar = r.range(0, 2)
        params = [self.fresh() for _ in range(ar)]
        saved, self.scopes = self.scopes, [{p: "ctr" for p in params}]     # parameters alias the caller's variables: keep them read-only
        self.in_fn += 1
        saved_loop, self.in_loop = self.in_loop, 0
        body = self.block(0, extra_first=None)
        # make the function yield an int
        body = body[:-1] + " " + self.fn_tail() + ")"
        self.in_loop = saved_loop
        self.in_fn -= 1
        self.scopes = saved
        self.funs[f] = ar
        return "(def %s (%s) %s)" % (f, " ".join(params), body)

    def overload_group(self):
        """several definitions of one name: guarded and unguarded overloads of the same arity, typed parameters; then calls
        with arguments that select different overloads, fall through every guard, or make a guard itself raise"""
        r = self.rng
        self.note("overloads")
        f = "f%d" % self.next_fn
        self.next_fn += 1
        p = self.fresh()
        defs = []
        def body(tag):
            return "(block (print (int %d)) (bin + (id %s) (int %d)))" % (tag, p, tag)
        form = r.below(4)
        if form == 0:
            # guards on the value, optional unguarded fallback
            defs.append("(defg %s (%s) (bin > (id %s) (int %d)) %s)" % (f, p, p, r.range(0, 3), body(100)))
            if r.chance(1, 2):
                defs.append("(defg %s (%s) (bin < (id %s) (int %d)) %s)" % (f, p, p, r.range(-2, 1), body(200)))
            if r.chance(2, 3):
                defs.append("(def %s (%s) %s)" % (f, p, body(300)))
            if r.chance(1, 2):
                defs.reverse()
            args = [self.int_expr(1) for _ in range(r.range(2, 4))]
        elif form == 1:
            # a guard that can raise: division by the argument, a throwing callback, a script throw, a non-boolean result
            self.note("guard-raises")
            g = r.choice(["(bin == (bin / (int 6) (id %s)) (int 2))" % p,
                          "(bin > (cb %d (id %s)) (int 0))" % (r.below(4), p),
                          "(or (bin != (id %s) (int 1)) (bin == (throw (int 77)) (int 0)))" % p,
                          "(id %s)" % p,
                          "(bin < (id x999) (int 1))"])
            if "cb" in g:
                self.ncb += 1
            defs.append("(defg %s (%s) %s %s)" % (f, p, g, body(100)))
            if r.chance(1, 2):
                defs.append("(def %s (%s) %s)" % (f, p, body(300)))
            args = [r.choice(["(int 0)", "(int 1)", "(int 3)", self.int_expr(1)]) for _ in range(r.range(2, 4))]
        elif form == 2:
            # typed parameters select by the argument's type
            self.note("typed-params")
            kinds = r.shuffle(["int", "bool", None])[:r.range(1, 3)]
            for t in kinds:
                q = "(%s %s)" % (t, p) if t else p
                b = "(block (print (int %d)) (int %d))" % ({"int": 1, "bool": 2, None: 3}[t], {"int": 1, "bool": 2, None: 3}[t])
                defs.append("(def %s (%s) %s)" % (f, q, b))
            args = [r.choice([self.int_expr(1), self.bool_expr(1)] + (["(str 1)"] if self.feat["strs"] else [])) for _ in range(r.range(2, 4))]
        else:
            # a definition repeated: same arity and types, unguarded -> error; differing only by a guard -> allowed
            self.note("redefinition")
            defs.append("(def %s (%s) %s)" % (f, p, body(300)))
            defs.append(r.choice(["(def %s (%s) %s)" % (f, p, body(400)), "(defg %s (%s) (bin == (id %s) (int 1)) %s)" % (f, p, p, body(100)),
                                  "(def %s ((int %s)) %s)" % (f, p, body(500))]))
            args = ["(int 1)", "(int 2)"]
        calls = []
        for a in args:
            c = "(print (call (fid %s) %s))" % (f, a)
            if r.chance(1, 2):
                c = "(try (block %s) (catch %s (block (print (int -7)))))" % (c, self.fresh())
            calls.append(c)
        return "(block (noop)) " + " ".join(defs) + " " + " ".join(calls)

    def fn_tail(self):
        self.scopes.append({})
        e = self.int_expr()
        self.scopes.pop()
        return e if self.rng.chance(1, 2) else "(return %s)" % e

    def lambda_stmt(self, depth):
        r = self.rng
        self.note("lambda")
        ints = self.vars_of("int")
        caps = []
        if ints and r.chance(2, 3):
            caps = [r.choice(ints)]
        p = self.fresh()
        def ty_of(n):
            for sc in reversed(self.scopes):
                if n in sc:
                    return sc[n]
            return "int"
        saved, self.scopes = self.scopes, [{p: "ctr", **{c: ty_of(c) for c in caps}}]
        self.in_fn += 1
        saved_loop, self.in_loop = self.in_loop, 0
        body = self.block(0, n=1)
        body = body[:-1] + " " + self.fn_tail() + ")"
        self.in_loop = saved_loop
        self.in_fn -= 1
        self.scopes = saved
        n = self.fresh()
        self.declare(n, "fn")
        return "(block (decl %s (lambda (%s) (%s) %s)) (print (call (id %s) %s)))" % (n, " ".join(caps), p, body, n, self.int_expr())

    def program(self, nstmts):
        """a program that terminates: `x := y` on a loop counter (feature refassign) can make a loop run forever, so each candidate is
        run by the reference interpreter under a step budget and regenerated when it does not finish"""
        import pyref
        for attempt in range(20):
            sx = self._program(nstmts)
            try:
                pyref.run_program(sx)
                return sx
            except (RuntimeError, RecursionError):
                hist = self.hist
                self.__init__(self.rng, self.feat, self.maxdepth)
                self.hist = hist
                self.note("regenerated-nonterminating")
        return "((int 0))"

    def _program(self, nstmts):
        stmts = []
        for _ in range(nstmts):
            stmts.append(self.stmt(0))
        if self.rng.chance(1, 2):
            stmts.append(self.int_expr())
        return "(" + " ".join(stmts) + ")"
