# Expression trees over the operator table, their minimal-parentheses token strings, random token soups, and an independent
# (Pratt-style) reference parser with C's precedence table — for the M-PREC correspondence of C03.
#   tree: ("a", n) | ("p", sym, e) | ("b", sym, l, r) | ("t", c, t, e)
import re

# C's table, loosest first (level 0 is ?: ; the last level is the prefix operators)
C_LEVELS = [["?"], ["||"], ["&&"], ["|"], ["^"], ["&"], ["==", "!="], ["<", "<=", ">", ">="], ["<<", ">>"], ["+", "-"], ["*", "/", "%"]]
C_PREFIX = ["++", "--", "-", "+", "!", "~"]
N = len(C_LEVELS)
BIN = {s: l for l, syms in enumerate(C_LEVELS) if l > 0 for s in syms}
NODE_OF = {"||": "Logical_Or", "&&": "Logical_And"}


def sym_id(s):
    return sum(ch << (8 * i) for i, ch in enumerate(s.encode()))


def gen_tree(rng, depth):
    k = rng.below(10) if depth > 0 else 0
    if k <= 1:
        return ("a", rng.below(10))
    if k == 2:
        return ("p", rng.choice(C_PREFIX), gen_tree(rng, depth - 1))
    if k == 3:
        return ("t", gen_tree(rng, depth - 1), gen_tree(rng, depth - 1), gen_tree(rng, depth - 1))
    s = rng.choice(list(BIN))
    if rng.chance(1, 3):      # same-level neighbours are the associativity cases
        lvl = BIN[s]
        t = ("b", s, gen_tree(rng, depth - 1), gen_tree(rng, depth - 1))
        s2 = rng.choice(C_LEVELS[lvl])
        return ("b", s2, t, gen_tree(rng, depth - 1)) if rng.chance(1, 2) else ("b", s2, gen_tree(rng, depth - 1), t)
    return ("b", s, gen_tree(rng, depth - 1), gen_tree(rng, depth - 1))


def lev(e):
    return N if e[0] in "ap" else (BIN[e[1]] if e[0] == "b" else 0)


def toks(e, l=0):
    """tokens of e as an operand of level l, parenthesised only when C requires it"""
    if l > lev(e):
        return ["("] + toks(e, 0) + [")"]
    if e[0] == "a":
        return ["a%d" % e[1]]
    if e[0] == "p":
        return [e[1]] + toks(e[2], N)
    if e[0] == "b":
        m = BIN[e[1]]
        return toks(e[2], m) + [e[1]] + toks(e[3], m + 1)
    return toks(e[1], 1) + ["?"] + toks(e[2], 1) + [":"] + toks(e[3], 0)


def soup(rng):
    """a token string that is often NOT a printed tree: redundant / missing parentheses, doubled operators, dangling ends"""
    t = toks(gen_tree(rng, rng.range(1, 4)))
    for _ in range(rng.range(1, 3)):
        k = rng.below(6)
        i = rng.below(len(t) + 1)
        if k == 0 and t:
            del t[min(i, len(t) - 1)]
        elif k == 1:
            t.insert(i, rng.choice(list(BIN) + C_PREFIX + ["?", ":"]))
        elif k == 2:
            j = rng.range(i, len(t))
            t = t[:i] + ["("] + t[i:j] + [")"] + t[j:]
        elif k == 3 and t:
            t[min(i, len(t) - 1)] = rng.choice(list(BIN) + ["a%d" % rng.below(10), ")", "("])
        elif k == 4:
            t = t[:i]
        else:
            t.insert(i, rng.choice(["(", ")"]))
    # the statement grammar around Operator() gives `x (` (a call), `x [`, `: x` … their own meaning: keep to what Operator itself decides
    out = []
    for w in t:
        if w == "(" and out and (out[-1] == ")" or out[-1].startswith("a")):
            continue
        if w.startswith("a") and out and (out[-1].startswith("a") or out[-1] == ")"):
            continue
        out.append(w)
    return out or ["a0"]


ASSIGN = ["=", ":=", "+=", "-=", "*=", "/=", "%=", "<<=", ">>=", "&=", "^=", "|="]


def model_line(ts):
    return " ".join(w if w in ("(", ")", "?", ":") or w.startswith("a") else ("e%d" if w in ASSIGN else "s%d") % sym_id(w) for w in ts)


def gen_chain(rng, depth):
    """e1 <asg> e2 <asg> … en: (tokens, expected normal form) — assignments nest to the right"""
    es = [gen_tree(rng, depth) for _ in range(rng.range(2, 4))]
    ops = [rng.choice(ASSIGN) for _ in es[1:]]
    ts = toks(es[0])
    for o, e in zip(ops, es[1:]):
        ts += [o] + toks(e)
    want = show(es[-1])
    for o, e in zip(reversed(ops), reversed(es[:-1])):
        want = "(e %d %s %s)" % (sym_id(o), show(e), want)
    return ts, "ok " + want


def text(ts):
    return " ".join(ts)


# C's punctuators that can swallow a neighbour (maximal munch), plus ChaiScript's own `:=` `..` `::` and the comment openers
CPUNCT = ["++", "--", "<<", ">>", "<=", ">=", "==", "!=", "&&", "||", "+=", "-=", "*=", "/=", "%=", "&=", "|=", "^=", "<<=", ">>=", "->", "...", "::", "//", "/*", ":=", ".."]


def glue_ok(a, b):
    """may tokens a, b be written with no blank between them and still be read as a then b under C's maximal munch?"""
    wa, wb = a[0].isalnum() or a[0] == "_", b[0].isalnum() or b[0] == "_"
    if wa and wb:
        return False
    if wa or wb:
        return True
    s = a + b
    return not any(len(p) > len(a) and s.startswith(p) for p in CPUNCT)


def glued_text(ts, rng):
    out = ts[0]
    for a, b in zip(ts, ts[1:]):
        out += ("" if glue_ok(a, b) and rng.chance(2, 3) else " ") + b
    return out


def show(e):
    if e[0] == "a":
        return "a%d" % e[1]
    if e[0] == "p":
        return "(p %d %s)" % (sym_id(e[1]), show(e[2]))
    if e[0] == "b":
        return "(b %d %s %s)" % (sym_id(e[1]), show(e[2]), show(e[3]))
    return "(t %s %s %s)" % (show(e[1]), show(e[2]), show(e[3]))


# ---- independent reference: precedence climbing with binding powers (not the level-by-level descent of the parser)
class Bad(Exception):
    pass


def ref_parse(ts):
    pos = [0]

    def peek():
        return ts[pos[0]] if pos[0] < len(ts) else None

    def primary():
        w = peek()
        if w is None:
            raise Bad()
        pos[0] += 1
        if w.startswith("a"):
            return ("a", int(w[1:]))
        if w == "(":
            e = expr(0)
            if peek() != ")":
                raise Bad()
            pos[0] += 1
            return e
        if w in C_PREFIX:
            return ("p", w, primary())
        raise Bad()

    def expr(minl):
        left = primary()
        while True:
            w = peek()
            if w in BIN and BIN[w] >= max(minl, 1):
                pos[0] += 1
                left = ("b", w, left, expr(BIN[w] + 1))
            elif w == "?" and minl == 0:
                pos[0] += 1
                mid = expr(1)
                if peek() != ":":
                    raise Bad()
                pos[0] += 1
                left = ("t", left, mid, expr(0))
            else:
                return left

    def equation():
        left = show(expr(0))
        if peek() in ASSIGN:
            o = ts[pos[0]]
            pos[0] += 1
            return "(e %d %s %s)" % (sym_id(o), left, equation())
        return left

    try:
        e = equation()
    except Bad:
        return "error"
    return "ok " + e if pos[0] == len(ts) else "error"


# ---- the real parser's generic dump -> the same normal form
def parse_sexp(s):
    i = [0]

    def node():
        assert s[i[0]] == "("
        i[0] += 1
        j = i[0]
        while s[j] not in " ()":
            j += 1
        head = s[i[0]:j]
        # the node text may itself be an operator containing no blanks / parentheses
        i[0] = j
        kids = []
        while s[i[0]] == " ":
            i[0] += 1
            if s[i[0]] == "(":
                kids.append(node())
        assert s[i[0]] == ")", s[i[0]:]
        i[0] += 1
        return (head, kids)

    return node()


def canon_impl(o):
    """`noopt=(File: …)` of `optree raw` -> `ok <tree>` / `error`; node kinds must fit their symbols"""
    m = re.search(r"noopt=(.*)$", o)
    if not m:
        return "bad-reply " + o[:80]
    s = m.group(1)
    if s.startswith("parse-error"):
        return "error"
    try:
        head, kids = parse_sexp(s)
    except Exception:
        return "unreadable " + s[:80]
    if head != "File:" or len(kids) != 1:
        return "not-one-expression " + s[:80]

    def conv(n):
        head, kids = n
        kind, _, txt = head.partition(":")
        if kind == "Id" and not kids:
            return txt
        if kind == "Prefix" and len(kids) == 1:
            return "(p %d %s)" % (sym_id(txt), conv(kids[0]))
        if kind in ("Binary", "Logical_And", "Logical_Or") and len(kids) == 2:
            if NODE_OF.get(txt, "Binary") != kind:
                return "(wrong-node-kind %s for %s)" % (kind, txt)
            return "(b %d %s %s)" % (sym_id(txt), conv(kids[0]), conv(kids[1]))
        if kind == "Equation" and len(kids) == 2 and txt in ASSIGN:
            return "(e %d %s %s)" % (sym_id(txt), conv(kids[0]), conv(kids[1]))
        if kind == "If" and len(kids) == 3:
            return "(t %s %s %s)" % tuple(conv(k) for k in kids)
        return "(?%s/%d)" % (head, len(kids))

    return "ok " + conv(kids[0])


def canon_model(o):
    if o.startswith("ok ") and o.endswith(" rest="):
        return o[:-len(" rest=")]
    if o == "fuel" or o == "bad-op":
        return o
    return "error"
