# C07: mutation attempts against const sources.  A case = (source, route, mutators) -> a script snippet for harness/constprobe.cpp.
# Everything random comes from the SplitMix64 passed in.

SOURCES = {
    # name in the script : type
    "gci": "int", "gcd": "double", "gcb": "bool", "gcs": "string", "gcv": "vector", "gcm": "map", "gco": "obj",
    "cvi": "int", "cvs": "string", "cvv": "vector", "cvo": "obj",
    "cri": "int", "crs": "string", "crv": "vector", "cro": "obj", "cpo": "obj", "spo": "obj",
    "cdr": "der", "cdp": "der", "dsp": "der", "gcder": "der", "ret_cder()": "der",
    "ret_ci()": "int", "ret_cs()": "string", "ret_co()": "obj", "ret_cv()": "vector",
    # literals of every spelling (each literal kind is built by its own branch of the parser: buildInt's suffix ladder and its out-of-range fallback, buildFloat, chars).
    # intx / doublex: not exactly int / double — a C++ function taking int& / double& then receives a converted temporary, which is no violation, so the
    # mut_* functions are not among their mutators
    "0x8000000000000000": "intx", "0xFFFFFFFFFFFFFFFF": "intx", "9223372036854775808": "intx", "18446744073709551615": "intx", "01777777777777777777777": "intx",
    "0b1000000000000000000000000000000000000000000000000000000000000000": "intx", "2147483648": "intx", "4294967296": "intx", "9223372036854775807": "intx",
    "5u": "intx", "5l": "intx", "5ul": "intx", "5ll": "intx", "5ull": "intx", "5LL": "intx", "0x10": "int", "0b101": "int", "017": "int", "0xFFFFFFFF": "intx", "0x7FFFFFFF": "int",
    "'c'": "intx", "2.5f": "doublex", "2.5l": "doublex", "1e3": "double", "1.5e-3": "double", ".5": "double", "1 < 2": "bool", "(5 / 2)": "int", "(2.0 * 3)": "double", "-5": "int", "(-(5))": "int",
    "5": "int", "(1 + 2)": "int", "2.5": "double", "true": "bool", "!false": "bool", "\"lit\"": "string", "[1, 2]": "tmpvector",
}

MUTATORS = {
    "int": ["{a} = 5", "{a} += 1", "{a} -= 1", "{a} *= 2", "{a} /= 2", "{a} %= 2", "{a} <<= 1", "{a} |= 1", "++{a}", "--{a}", "{a} := 5", "mut_i({a})", "mut_ip({a})"],
    "double": ["{a} = 1.5", "{a} += 1.0", "{a} *= 2.0", "++{a}", "{a} := 1.5", "mut_d({a})"],
    "bool": ["{a} = false", "{a} := false", "mut_b({a})"],
    "string": ["{a} = \"q\"", "{a} += \"x\"", "{a}.push_back('z')", "{a}.clear()", "{a}[0] = 'q'", "{a}.erase(0, 1)", "{a}.insert(0, \"I\")", "{a} := \"q\"", "mut_s({a})", "{a}.pop_back()"],
    "vector": ["{a} = [9]", "{a}.push_back(9)", "{a}[0] = 9", "{a}[0] += 1", "++{a}[0]", "{a}.clear()", "{a}.pop_back()", "{a}.resize(1)", "{a} := [9]", "mut_v({a})", "{a}.push_back_ref(gci)",
               "{a}.erase_at(0)", "{a}.insert_at(0, 9)", "{a}.front() = 9", "{a}.back() = 9", "for (x : {a}) {{ x = 9 }}"],
    "map": ["{a}[\"a\"] = 9", "{a}[\"k\"] = 9", "{a}.clear()", "{a}.erase(\"a\")", "{a}[\"a\"] += 1", "{a} := [\"z\": 1]", "mut_m({a})", "{a}.at(\"a\") = 9"],
    "obj": ["{a}.set(9)", "{a}.inc()", "{a}.v = 9", "{a}.v += 1", "{a} = Obj(9)", "{a} := Obj(9)", "mut_o({a})", "mut_op({a})", "mut_osp({a})", "++{a}.v"],
}
# the same operators called as functions (`+=`(a, 1)): dispatch reaches Boxed_Number::oper / the registered assignment directly, not through Equation
MUTATORS["int"] += ["`=`({a}, 5)", "`+=`({a}, 1)", "`-=`({a}, 1)", "`*=`({a}, 2)", "`/=`({a}, 2)", "`%=`({a}, 2)", "`<<=`({a}, 1)", "`>>=`({a}, 1)", "`|=`({a}, 1)", "`&=`({a}, 1)", "`^=`({a}, 1)", "`++`({a})", "`--`({a})"]
MUTATORS["double"] += ["`=`({a}, 1.5)", "`+=`({a}, 1.0)", "`-=`({a}, 1.0)", "`*=`({a}, 2.0)", "`/=`({a}, 2.0)", "`++`({a})", "`--`({a})"]
MUTATORS["bool"] += ["`=`({a}, false)"]
MUTATORS["string"] += ["`=`({a}, \"q\")", "`+=`({a}, \"x\")"]
MUTATORS["vector"] += ["`=`({a}, [9])"]
MUTATORS["obj"] += ["`=`({a}, Obj(9))"]
MUTATORS["der"] = ["{a}.pset(9)", "{a}.pv = 9", "{a}.pv += 1", "mut_pb({a})", "mut_pbp({a})", "mut_pd({a})", "{a} = PDer(9)", "{a} := PDer(9)", "++{a}.pv"]
MUTATORS["tmpvector"] = MUTATORS["vector"]
MUTATORS["intx"] = [m for m in MUTATORS["int"] if "mut_" not in m]
MUTATORS["doublex"] = [m for m in MUTATORS["double"] if "mut_" not in m]

# routes: how the attacker gets hold of the source.  alias=True means the handle must still be the const object itself.
ROUTES = [
    ("direct", True, "{M:S}"),
    ("reference", True, "var &r = {S}; {M:r}"),
    ("ref-of-ref", True, "var &r = {S}; var &q = r; {M:q}"),
    ("ref-assign", True, "var r; r := {S}; {M:r}"),
    ("auto-ref", True, "auto &r = {S}; {M:r}"),
    ("param", True, "var f = fun(x) {{ {M:x} }}; f({S})"),
    ("param-def", True, "def attack(x) {{ {M:x} }}; attack({S})"),
    ("param-twice", True, "var f = fun(x) {{ var g = fun(y) {{ {M:y} }}; g(x) }}; f({S})"),
    ("returned", True, "var f = fun() {{ return {S} }}; {M:f()}"),
    ("returned-ref", True, "var f = fun() {{ return {S} }}; var &r = f(); {M:r}"),
    ("capture", True, "var &c = {S}; var f = fun[c]() {{ {M:c} }}; f()"),
    ("bind", True, "var f = fun(x) {{ {M:x} }}; var b = bind(f, {S}); b()"),
    ("in-vector-ref", True, "var v = []; v.push_back_ref({S}); {M:v[0]}"),
    ("ranged-for", True, "var v = []; v.push_back_ref({S}); for (e : v) {{ {M:e} }}"),
    ("copy", False, "var c = {S}; {M:c}"),
    ("copy-auto", False, "auto c = {S}; {M:c}"),
    ("in-vector-copy", False, "var v = [{S}]; {M:v[0]}"),
    ("in-map-copy", False, "var m = [\"k\": {S}]; {M:m[\"k\"]}"),
    ("copy-ctor-param", False, "var f = fun(x) {{ var y = x; {M:y} }}; f({S})"),
]


def gen_case(rng):
    src = rng.choice(list(SOURCES))
    ty = SOURCES[src]
    name, alias, tmpl = rng.choice(ROUTES)
    muts = [rng.choice(MUTATORS[ty]) for _ in range(rng.range(1, 3))]

    def expand(handle):
        return "; ".join("try {{ {m}; pr(1) }} catch(e) {{ pr(0) }}".format(m=m.format(a=handle)) for m in muts)
    text = tmpl
    # {M:h} -> the guarded mutation attempts through handle h ;  {S} -> the source expression
    import re
    text = re.sub(r"\{M:([^}]*)\}", lambda m_: expand(m_.group(1).replace("S", src) if m_.group(1) == "S" else m_.group(1)), text.replace("{{", "\x01").replace("}}", "\x02"))
    text = text.replace("{S}", src).replace("\x01", "{").replace("\x02", "}")
    return {"source": src, "type": ty, "route": name, "alias": alias, "mutators": muts, "script": text}
