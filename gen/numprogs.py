# Raw ChaiScript programs around numeric literals of every spelling, shaped to hit the optimizer's numeric side conditions
# (For_Loop's int-only rule, Partial_Fold / Constant_Fold on arithmetic constants, conversion-call folding).  Engine-only fodder
# for C02 (optimizer on vs off).  Everything random comes from the SplitMix64 passed in.

LITS = ["0", "1", "2", "3", "5", "2.5", "3.0", "0.5", "1.5f", "3l", "2u", "4ul", "3ll", "0x3", "0b11", "07", "2.0l", "1e0", "25e-1", "'\\x03'", "true",
        "2147483647", "2147483648", "4294967296", "-1", "-2.5", "(1 + 1)", "(1 + 1.5)", "(5 / 2)", "(5 / 2.0)", "(7 % 4)", "(1 << 1)", "(3u - 1)"]
OPS = ["+", "-", "*", "/", "%", "<", "<=", ">", ">=", "==", "!=", "&", "|", "^", "<<", ">>"]


def gen_program(rng):
    k = rng.below(6)
    guard = lambda s: "try { %s } catch(e) { pr(-7) }" % s
    if k <= 1:
        # counting loops: every literal kind as start and as bound; body may read, move or capture the counter
        lo, hi = rng.choice(LITS), rng.choice(LITS)
        cmp_ = rng.choice(["<", "<", "<", "<=", "!="])
        step = rng.choice(["++i", "++i", "++i", "i += 1", "i++"])
        body = rng.choice(["pr(i)", "pr(i); if (i > 6) { break }", "n += 1", "pr(i * 2)", "if (i == 1) { continue }; pr(i)", "f = fun[i]() { i }"])
        return "var n = 0; var f = fun() { 0 }; " + guard("var c = 0; for (var i = %s; i %s %s; %s) { %s; if (++c > 8) { break } }" % (lo, cmp_, hi, step, body)) + "; pr(n); " + guard("pr(f())")
    if k == 2:
        # a variable against a literal (Partial_Fold keeps the literal out of the tree walk)
        a, b = rng.choice(LITS), rng.choice(LITS)
        op = rng.choice(OPS)
        return "var x = %s; " % a + guard("pr(x %s %s)" % (op, b)) + "; " + guard("pr(%s %s x)" % (b, op)) + "; " + guard("var y = x %s %s; pr(y)" % (op, b))
    if k == 3:
        # two literals (Constant_Fold), prefix operators on a literal
        a, b = rng.choice(LITS), rng.choice(LITS)
        op = rng.choice(OPS)
        pre = rng.choice(["-", "+", "~", "!", "++", "--"])
        return guard("pr(%s %s %s)" % (a, op, b)) + "; " + guard("pr(%s%s)" % (pre, a)) + "; " + guard("var z = %s %s %s; z += 1; pr(z)" % (a, op, b))
    if k == 4:
        # conversion calls on literals and on variables
        a = rng.choice(LITS)
        f = rng.choice(["int", "double", "float", "long", "size_t", "char", "unsigned_int", "to_string", "bool"])
        return guard("pr(%s(%s))" % (f, a)) + "; var v = %s; " % a + guard("pr(%s(v))" % f) + "; " + guard("pr(%s(%s) + 1)" % (f, a))
    # conditions on constants
    a, b = rng.choice(LITS), rng.choice(LITS)
    op = rng.choice(["<", "==", "!=", ">="])
    return guard("if (%s %s %s) { pr(1) } else { pr(2) }" % (a, op, b)) + "; " + guard("pr(%s %s %s ? 10 : 20)" % (a, op, b)) + "; " + guard("while (%s %s %s) { pr(3); break }" % (a, op, b))
