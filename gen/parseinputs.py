# C01: byte strings for the parser: valid programs, mutations, truncations, bracket soup, every escape shape, pathological nesting, raw bytes.
# Everything random comes from the SplitMix64 passed in.
import glob, io, os, tarfile

SNIPPETS = ["var x = 1", "def f(a, b) { return a + b }", "if (x) { y } else if (z) { w } else { v }", "for (var i = 0; i < 3; ++i) { print(i) }", "while (true) { break }",
            "fun[x](y) { x + y }", "[1, 2, 3]", "[\"a\": 1, \"b\": 2]", "[1..10]", "x.y(z).w", "a[1][2]", "try { throw(1) } catch(e) { } finally { }",
            "switch (x) { case (1) { } default { } }", "class C { var a; def C() { } def m() { this.a } }", "\"str ${1 + 2} end\"", "'c'", "1.5e10", "0xFFul", "0b101",
            "a ? b : c", "!x && y || z", "x := y", "auto &r = x", "global g = 1", "attr C::a", "def C::m(x) : x > 1 { }", "for (e : v) { }", "#!shebang\n1", "// comment\n1", "/* c */ 1",
            "`+`(1, 2)", "fun() { }()", "x = y = z", "-x + +y - ~z", "1 << 2 >> 3", "a % b ^ c & d | e", "return", "continue", "__LINE__", "__FILE__", "_", "true", "false", "\"\\x41\\u00e9\\U0001F600\\101\\n\""]
ESCAPES = ["\\x", "\\x4", "\\x41", "\\xZZ", "\\xFFFFFFFFFF", "\\u", "\\u12", "\\u1234", "\\uZZZZ", "\\uD800", "\\uDFFF", "\\U", "\\U0001F600", "\\UFFFFFFFF", "\\U0011FFFF", "\\0", "\\7", "\\377", "\\400",
           "\\777", "\\8", "\\9", "\\a", "\\b", "\\f", "\\n", "\\r", "\\t", "\\v", "\\'", "\\\"", "\\?", "\\\\", "\\$", "\\z", "\\", "${", "${}", "${1", "${${}}", "$", "\\${1}"]
OPENERS = ["(", "[", "{", "fun(){", "if(true){", "[1,", "f(", "1+(", "x[", "\"${", "!", "-", "~", "++", "x?", "x?y:", "[x:", "def f(){", "try{", "class C{def m(){", "while(true){", "for(;;){", "[[", "(("]
# right-recursive and chain constructs: every repetition is one more level of the descent (or must be shown not to be)
CHAINS = ["x=", "x+=", "x-=", "x:=", "x*=", "x<<=", "a.", "a.b().", "a[0].", "f().", "a&&", "a||", "a+", "a-", "a*", "a<", "a==", "a<<", "a|", "a^", "a&", "-a+", "!a&&", "a?b:", "a?", "var x=", "auto x=", "global x=", "return ", "return x=",
          "if(a){}else ", "if(a)1 else ", "if(a){}else if(b){}else ", "x[0]=", "[1:", "[1..", "a[", "f()(", "f(g(", "-(", "!(", "fun(){}(", "f(x=", "[x=", "\"${x=", "{x=", "x,", "a;", "x\n", "def f(){};", "`+`(", "a.`b`.", "x=\n", "a+\n",
          "a + ", " x = ", "/**/x=", "x=//\n", "a[0]", "f()", "a.b", "[1]+", "a%", "a/", "a>=", "a!=", "a>>"]
# constants fold: each step re-builds the text of the folded constant, so these chains cost quadratic time on the unchanged tree; keep them shorter
CONST_CHAINS = ["\"s\"+", "'c'+", "1.5+", "1+", "1-", "1*", "1<", "1==", "1<<", "1|", "1^", "1&", "1&&", "1||"]
WRAPS = [("", ""), ("{", "}"), ("def f(){", "}"), ("for(;;){", "}"), ("var y=", ""), ("f(", ")"), ("[", "]"), ("if(", "){}"), ("return ", "")]
CLOSERS = [")", "]", "}", "}\"", "", " ", ";", "\n"]


def corpus_files(repo):
    out = []
    for pat in ("unittests/*.chai", "unittests/*.inc", "samples/*.chai", "contrib/**/*.chai"):
        for f in sorted(glob.glob(os.path.join(repo, pat), recursive=True)):
            try:
                out.append(open(f, "rb").read())
            except OSError:
                pass
    return out


def afl_corpus(repo, limit):
    """inputs of the AFL corpus shipped with the repository (never run by the suite)"""
    p = os.path.join(repo, "unittests", "fuzzy_tests-2017-07-20.tar.bz2")
    out = []
    try:
        with tarfile.open(p, "r:bz2") as t:
            for m in t:
                if m.isfile() and m.size < 20000:
                    out.append(t.extractfile(m).read())
                    if len(out) >= limit:
                        break
    except (OSError, tarfile.TarError):
        pass
    return out


def mutate(rng, b):
    b = bytearray(b)
    for _ in range(rng.range(1, 4)):
        k = rng.below(9)
        pos = rng.below(len(b) + 1)
        if k == 0 and b:
            del b[pos % len(b)]
        elif k == 1:
            b[pos:pos] = bytes([rng.below(256)])
        elif k == 2 and b:
            b[pos % len(b)] ^= 1 << rng.below(8)
        elif k == 3:
            b = b[:pos]                                                 # truncation
        elif k == 4:
            b[pos:pos] = rng.choice([b"(", b")", b"[", b"]", b"{", b"}", b"\"", b"'", b"\\", b"${", b"/*", b"*/", b"//", b"\n", b"\r\n", b"\x00", b"\xff", b"`"])
        elif k == 5 and b:
            i, j = sorted((pos % len(b), rng.below(len(b))))
            b[pos:pos] = b[i:j]                                         # duplicate a slice
        elif k == 6:
            b[pos:pos] = rng.choice(ESCAPES).encode()
        elif k == 7 and b:
            i, j = sorted((pos % len(b), rng.below(len(b))))
            del b[i:j]
        else:
            b[pos:pos] = rng.choice(SNIPPETS).encode()
    return bytes(b)


def nesting(rng, big):
    op = rng.choice(OPENERS + CHAINS + CONST_CHAINS)
    n = rng.choice([1, 5, 100, 400, 511, 512, 513, 600, 2000] + ([20000, 100000] if big else []))
    if op in CONST_CHAINS:
        n = min(n, 4000)                                                # folding constants costs quadratic time (see CONST_CHAINS)
    close = {"(": ")", "[": "]", "{": "}", "fun(){": "}", "if(true){": "}", "[1,": "]", "f(": ")", "1+(": ")", "x[": "]", "\"${": "}\"", "[x:": "]", "def f(){": "}", "try{": "}",
             "class C{def m(){": "}}", "while(true){": "}", "for(;;){": "}", "[[": "]]", "((": "))", "x?": ":0", "x?y:": ""}.get(op, "")
    mid = rng.choice(["1", "", "x", "\"s\""])
    k = rng.below(4)
    if k == 0:
        return (op * n + mid + close * n).encode()
    if k == 1:
        return (op * n + mid).encode()                                  # never closed
    if k == 2:
        return (op * n + mid + close * (n // 2)).encode()
    return (mid + close * n).encode()                                   # only closers


def deep_inputs(depth, rng=None):
    """one deep repetition of every opener and chain construct, alone and inside a block (where the optimizer looks at the whole tree):
    the real parser must stop these at the depth limit or handle them iteratively, and either is cheap. A recursion that escapes the
    Depth_Counter, or one over a tree built by a loop, is not."""
    out = []
    for op in OPENERS + CHAINS:
        out.append((op * depth + "a").encode())
    for op in CHAINS:
        if rng is None:
            pre, post = WRAPS[1]
        else:
            pre, post = rng.choice(WRAPS[1:])
        out.append((pre + op * depth + "a" + post).encode())
    for op in CONST_CHAINS:
        out.append((op * min(depth, 4000) + "1").encode())
    return out


def gen_inputs(rng, repo, n, big):
    base = corpus_files(repo)
    out = [b"", b")", b"\"\\UFFFFFFFF\"", b"\x00", b"\xff\xfe", b"#!x", b"1;;;;2", b"\"\\uZ\"", b"'", b"\"", b"/*", b"`", b"1 +", b"def", b"fun", b"class", b"${", b"\"${\"${\"${1}\"}\"}\""]
    # clauses that may appear once, repeated; clauses in the wrong order; clauses without their head
    out += [b"if(a){}else{}else{}", b"if(a){}else if(b){}else{}else{}", b"if(a){}else{}else if(b){}", b"if(a;b;c){}", b"if(var x=1;x){}else{}else{}",
            b"try{}catch(e){}finally{}finally{}", b"try{}finally{}catch(e){}", b"try{}catch{}catch{}", b"try{}", b"catch(e){}", b"finally{}", b"else{}",
            b"switch(x){default{}default{}}", b"switch(x){case(1){}case(1){}default{}case(2){}}", b"switch(x){}", b"case(1){}", b"default{}",
            b"def f():g:h{}", b"def f(a,a){}", b"def f(){}{}", b"class C{}{}", b"class C{class D{}}", b"class C{def C(){}def C(){}}", b"attr C::a::b",
            b"for(;;;){}", b"for(a:b:c){}", b"for(){}", b"while(){}", b"while(a)(b){}", b"fun(){}{}", b"fun[a][b](){}", b"fun(a)(b){}", b"[1:2:3]", b"[1..2..3]",
            b"return return", b"break break", b"var var x", b"var x = = 1", b"auto &&x", b"global global g", b"x ? y : z : w", b"x ? : y"]
    out += base
    out += deep_inputs(400000 if big else 150000, rng)
    out += afl_corpus(repo, 3000 if big else 300)
    while len(out) < n:
        k = rng.below(10)
        if k <= 3 and base:
            out.append(mutate(rng, rng.choice(base)))
        elif k == 4:
            out.append(("; ".join(rng.choice(SNIPPETS) for _ in range(rng.range(1, 6)))).encode())
        elif k == 5:
            out.append(mutate(rng, ("; ".join(rng.choice(SNIPPETS) for _ in range(rng.range(1, 4)))).encode()))
        elif k == 6:
            q = rng.choice(["\"", "'"])
            out.append((q + "".join(rng.choice(ESCAPES + ["a", " ", "é"]) for _ in range(rng.range(1, 5))) + rng.choice([q, ""])).encode("utf-8", "replace"))
        elif k == 7:
            out.append(nesting(rng, big))
        elif k == 8:
            out.append(bytes(rng.below(256) for _ in range(rng.range(1, 60))))
        else:
            out.append("".join(rng.choice(OPENERS + CLOSERS + ["x", "1", " ", ","]) for _ in range(rng.range(1, 40))).encode())
    return out
