# C03: grammar-directed generator of core-language programs (as trees), a printer that emits ChaiScript with the FEWEST parentheses C's
# precedence and associativity allow, and an independent reference interpreter of the documented (C++-like) semantics.
# Nothing here looks at the engine.  Everything random comes from the SplitMix64 passed in.

PREC = {"||": 1, "&&": 2, "|": 3, "^": 4, "&": 5, "==": 6, "!=": 6, "<": 7, "<=": 7, ">": 7, ">=": 7, "<<": 8, ">>": 8, "+": 9, "-": 9, "*": 10, "/": 10, "%": 10}


# ------------------------------------------------------------------------------------------------ printer
def prec(e):
    k = e[0]
    if k == "tern":
        return 0
    if k == "bin":
        return PREC[e[1]]
    if k == "and":
        return 2
    if k == "or":
        return 1
    if k in ("neg", "not"):
        return 11
    return 13


def pe(e, need=0, right=False):
    """expression text; parenthesised only if its precedence is too low for the position it is in"""
    k = e[0]
    if k == "int":
        t = str(e[1])
    elif k == "bool":
        t = "true" if e[1] else "false"
    elif k == "str":
        t = '"%s"' % e[1]
    elif k == "id":
        t = e[1]
    elif k == "bin":
        p = PREC[e[1]]
        t = "%s %s %s" % (pe(e[2], p), e[1], pe(e[3], p + 1))             # left-associative: the right operand must bind tighter
    elif k == "and":
        t = "%s && %s" % (pe(e[1], 2), pe(e[2], 3))
    elif k == "or":
        t = "%s || %s" % (pe(e[1], 1), pe(e[2], 2))
    elif k == "neg":
        inner = pe(e[1], 11)
        t = "-" + ("(" + inner + ")" if inner.startswith("-") else inner)
    elif k == "not":
        t = "!" + pe(e[1], 11)
    elif k == "tern":
        t = "%s ? %s : %s" % (pe(e[1], 1), pe(e[2], 1), pe(e[3], 0))         # right-associative: a conditional may be the else operand as is
    elif k == "call":
        t = "%s(%s)" % (pe(e[1], 12), ", ".join(pe(a) for a in e[2]))
    elif k == "index":
        t = "%s[%s]" % (pe(e[1], 12), pe(e[2]))
    elif k == "attr":
        t = "%s.%s" % (pe(e[1], 12), e[2])
    elif k == "mcall":
        t = "%s.%s(%s)" % (pe(e[1], 12), e[2], ", ".join(pe(a) for a in e[3]))
    elif k == "isize":
        t = "int(%s.size())" % pe(e[1], 12)            # size() is a size_t: the programs compute in int (mixed signedness is C05's subject)
    elif k == "vec":
        t = "[%s]" % ", ".join(pe(a) for a in e[1])
    elif k == "map":
        t = "[%s]" % ", ".join('"%s": %s' % (kk, pe(v)) for kk, v in e[1])
    elif k == "lambda":
        t = "fun%s(%s) %s" % ("[%s]" % ", ".join(e[1]) if e[1] else "", ", ".join(e[2]), ps(e[3]))
    elif k == "new":
        t = "%s(%s)" % (e[1], ", ".join(pe(a) for a in e[2]))
    else:
        raise ValueError(k)
    return "(" + t + ")" if prec(e) < need else t


def ps(s):
    k = s[0]
    if k == "block":
        return "{ " + "; ".join(ps(x) for x in s[1]) + " }"
    if k == "decl":
        return "var %s = %s" % (s[1], pe(s[2]))
    if k == "ref":
        return "var &%s = %s" % (s[1], pe(s[2]))
    if k == "assign":
        return "%s %s %s" % (pe(s[2], 12), s[1], pe(s[3]))
    if k == "preinc":
        return "++" + pe(s[1], 12)
    if k == "predec":
        return "--" + pe(s[1], 12)
    if k == "print":
        return "pr(%s)" % pe(s[1])
    if k == "expr":
        return pe(s[1])
    if k == "if":
        t = "if (%s) %s" % (pe(s[1]), ps(s[2]))
        if s[3] is not None:
            t += " else " + (ps(s[3]) if s[3][0] in ("block", "if") else "{ " + ps(s[3]) + " }")
        return t
    if k == "while":
        return "while (%s) %s" % (pe(s[1]), ps(s[2]))
    if k == "for":
        return "for (%s; %s; %s) %s" % (ps(s[1]), pe(s[2]), ps(s[3]), ps(s[4]))
    if k == "rfor":
        return "for (%s : %s) %s" % (s[1], pe(s[2]), ps(s[3]))
    if k == "break":
        return "break"
    if k == "continue":
        return "continue"
    if k == "switch":
        t = "switch (%s) { " % pe(s[1])
        for c, body, brk in s[2]:
            t += "case (%s) { %s } " % (pe(c), "; ".join([ps(x) for x in body] + (["break"] if brk else [])))
        if s[3] is not None:
            t += "default { %s } " % "; ".join(ps(x) for x in s[3])
        return t + "}"
    if k == "def":
        params = ", ".join(("%s %s" % (t, n)) if t else n for t, n in s[2])
        return "def %s(%s)%s %s" % (s[1], params, (" : " + pe(s[3])) if s[3] is not None else "", ps(s[4]))
    if k == "return":
        return "return" + ("" if s[1] is None else " " + pe(s[1]))
    if k == "class":
        t = "class %s { " % s[1]
        t += "".join("var %s; " % a for a in s[2])
        t += "def %s(%s) %s; " % (s[1], ", ".join(s[3]), ps(s[4]))
        for mname, mparams, mbody in s[5]:
            t += "def %s(%s) %s; " % (mname, ", ".join(mparams), ps(mbody))
        return t + "}"
    if k == "push":
        return "%s.push_back(%s)" % (pe(s[1], 12), pe(s[2]))
    if k == "try":
        return "try %s catch(%s) %s" % (ps(s[1]), s[2], ps(s[3]))
    if k == "throw":
        return "throw(%s)" % pe(s[1])
    raise ValueError(k)


def program_text(stmts):
    return "; ".join(ps(s) for s in stmts)


# ------------------------------------------------------------------------------------------------ reference interpreter
class Box:
    __slots__ = ("v",)

    def __init__(self, v):
        self.v = v


class Err(Exception):
    def __init__(self, why):
        self.why = why


class Thrown(Exception):
    def __init__(self, v):
        self.v = v


class Brk(Exception):
    pass


class Cont(Exception):
    pass


class Ret(Exception):
    def __init__(self, box):
        self.box = box


class Closure:
    def __init__(self, params, body, caps, guard=None, this=None):
        self.params, self.body, self.caps, self.guard = params, body, caps, guard


class Obj:
    def __init__(self, cls):
        self.cls, self.attrs = cls, {}


VOID = ("void",)


SHALLOW_CONTAINERS = [False]          # alternative semantics, used only to CLASSIFY a known finding: container copies share their elements


def copy_value(v):
    """`var x = y` copies the VALUE: containers and objects are copied element by element"""
    if isinstance(v, list):
        if SHALLOW_CONTAINERS[0]:
            return list(v)
        return [Box(copy_value(b.v)) for b in v]
    if isinstance(v, dict):
        if SHALLOW_CONTAINERS[0]:
            return dict(v)
        return {k: Box(copy_value(b.v)) for k, b in v.items()}
    if isinstance(v, Obj):
        o = Obj(v.cls)
        o.attrs = {k: Box(copy_value(b.v)) for k, b in v.attrs.items()}
        return o
    return v


def tdiv(a, b):
    q = abs(a) // abs(b)
    return q if (a >= 0) == (b >= 0) else -q


class Ref:
    def __init__(self, max_steps=100000):
        self.out = []
        self.frames = [[{}]]
        self.funs = {}
        self.classes = {}
        self.steps, self.max_steps = 0, max_steps
        self.this = [None]

    def lookup(self, x):
        for sc in reversed(self.frames[-1]):
            if x in sc:
                return sc[x]
        if x in self.funs:
            return Box(("fobj", x))
        raise Err("cantFind")

    def declare(self, x, box):
        sc = self.frames[-1][-1]
        if x in sc:
            raise Err("redefined")
        sc[x] = box

    def truth(self, v):
        if not isinstance(v, bool):
            raise Err("condNotBool")
        return v

    def show(self, v):
        if isinstance(v, bool):
            return "b1" if v else "b0"
        if isinstance(v, int):
            return "i%d" % v
        if isinstance(v, str):
            return v
        if isinstance(v, list):
            return "[" + ",".join(self.show(b.v) for b in v) + "]"
        if isinstance(v, tuple) and v and v[0] == "exc":
            return "exc"
        return "?"

    # ---------------------------------------------------------------- expressions: return a Box (so that lvalues alias)
    def ev(self, e):
        self.steps += 1
        if self.steps > self.max_steps:
            raise RuntimeError("steps")
        k = e[0]
        if k in ("int", "bool", "str"):
            return Box(e[1])
        if k == "id":
            return self.lookup(e[1])
        if k == "bin":
            a, b = self.ev(e[2]).v, self.ev(e[3]).v
            return Box(self.binop(e[1], a, b))
        if k == "and":
            if not self.truth(self.ev(e[1]).v):
                return Box(False)
            return Box(self.truth(self.ev(e[2]).v))
        if k == "or":
            if self.truth(self.ev(e[1]).v):
                return Box(True)
            return Box(self.truth(self.ev(e[2]).v))
        if k == "not":
            v = self.ev(e[1]).v
            if not isinstance(v, bool):
                raise Err("dispatch")
            return Box(not v)
        if k == "neg":
            v = self.ev(e[1]).v
            if isinstance(v, bool) or not isinstance(v, int):
                raise Err("dispatch")
            return Box(-v)
        if k == "tern":
            return self.ev(e[2]) if self.truth(self.ev(e[1]).v) else self.ev(e[3])
        if k == "vec":
            return Box([Box(copy_value(self.ev(a).v)) for a in e[1]])
        if k == "map":
            return Box({kk: Box(copy_value(self.ev(v).v)) for kk, v in e[1]})
        if k == "index":
            c, i = self.ev(e[1]).v, self.ev(e[2]).v
            if isinstance(c, list) and isinstance(i, int) and not isinstance(i, bool):
                if 0 <= i < len(c):
                    return c[i]
                raise Err("outOfRange")
            if isinstance(c, dict) and isinstance(i, str):
                if i not in c:
                    c[i] = Box(("undef",))
                return c[i]
            raise Err("dispatch")
        if k == "isize":
            c = self.ev(e[1]).v
            if isinstance(c, (list, dict, str)):
                return Box(len(c))
            raise Err("dispatch")
        if k == "attr":
            o = self.ev(e[1]).v
            if isinstance(o, Obj) and e[2] in o.attrs:
                return o.attrs[e[2]]
            raise Err("dispatch")
        if k == "lambda":
            return Box(Closure([(None, p) for p in e[2]], e[3], {c: self.lookup(c) for c in e[1]}))
        if k == "call":
            args = [self.ev(a) for a in e[2]]
            f = self.ev(e[1]).v
            return self.call(f, args)
        if k == "mcall":
            args = [self.ev(a) for a in e[3]]
            ob = self.ev(e[1])
            if not isinstance(ob.v, Obj):
                raise Err("dispatch")
            m = self.classes[ob.v.cls]["methods"].get((e[2], len(args)))
            if m is None:
                raise Err("dispatch")
            return self.invoke(m, args, this=ob)
        if k == "new":
            args = [self.ev(a) for a in e[2]]
            cls = self.classes.get(e[1])
            if cls is None:
                raise Err("cantFind")
            if len(args) != len(cls["ctor"].params):
                raise Err("dispatch")
            o = Box(Obj(e[1]))
            for a in cls["attrs"]:
                o.v.attrs[a] = Box(("undef",))
            self.invoke(cls["ctor"], args, this=o)
            return o
        raise ValueError(k)

    def binop(self, op, a, b):
        ai = isinstance(a, int) and not isinstance(a, bool)
        bi = isinstance(b, int) and not isinstance(b, bool)
        if ai and bi:
            if op == "+": return a + b
            if op == "-": return a - b
            if op == "*": return a * b
            if op in ("/", "%"):
                if b == 0:
                    raise Err("arith")
                return tdiv(a, b) if op == "/" else a - tdiv(a, b) * b
            if op == "<": return a < b
            if op == "<=": return a <= b
            if op == ">": return a > b
            if op == ">=": return a >= b
            if op == "==": return a == b
            if op == "!=": return a != b
            if op == "&": return a & b
            if op == "|": return a | b
            if op == "^": return a ^ b
            if op == "<<": return a << b
            if op == ">>": return a >> b
        if isinstance(a, bool) and isinstance(b, bool) and op in ("==", "!="):
            return (a == b) if op == "==" else (a != b)
        if isinstance(a, str) and isinstance(b, str):
            if op == "+": return a + b
            if op == "==": return a == b
            if op == "!=": return a != b
            if op == "<": return a < b
        raise Err("dispatch")

    def accepts(self, ty, v):
        if ty is None:
            return True
        return {"int": isinstance(v, int) and not isinstance(v, bool), "bool": isinstance(v, bool), "string": isinstance(v, str)}.get(ty, False)

    def call(self, f, args):
        if isinstance(f, Closure):
            if len(f.params) != len(args):
                raise Err("dispatch")
            return self.invoke(f, args)
        if isinstance(f, tuple) and f[0] == "fobj":
            cands = [(sum(1 for t, _ in fn.params if t is None), fn.guard is None, k, fn) for k, fn in enumerate(self.funs[f[1]]) if len(fn.params) == len(args)]
            for _, _, _, fn in sorted(cands, key=lambda c: c[:3]):
                if not all(self.accepts(t, a.v) for (t, _), a in zip(fn.params, args)):
                    continue
                if fn.guard is not None:
                    self.frames.append([{}])
                    try:
                        for (_, p), a in zip(fn.params, args):
                            self.declare(p, a)
                        g = self.ev(fn.guard).v
                    finally:
                        self.frames.pop()
                    if g is not True:
                        continue
                return self.invoke(fn, args)
            raise Err("dispatch")
        raise Err("notFunction")

    def invoke(self, fn, args, this=None):
        self.frames.append([dict(fn.caps)])
        try:
            if this is not None:
                self.declare("this", this)
            for (_, p), a in zip(fn.params, args):
                self.declare(p, a)                     # parameters alias the caller's arguments
            try:
                return self.ex(fn.body)
            except Ret as r:
                return r.box
        finally:
            self.frames.pop()

    # ---------------------------------------------------------------- statements: return the Box of their value
    def block(self, stmts):
        self.frames[-1].append({})
        try:
            r = Box(VOID)
            for s in stmts:
                r = self.ex(s)
            return r
        finally:
            self.frames[-1].pop()

    def ex(self, s):
        self.steps += 1
        if self.steps > self.max_steps:
            raise RuntimeError("steps")
        k = s[0]
        if k == "block":
            return self.block(s[1])
        if k == "decl":
            b = Box(copy_value(self.ev(s[2]).v))
            self.declare(s[1], b)
            return b
        if k == "ref":
            b = self.ev(s[2])
            self.declare(s[1], b)
            return b
        if k == "assign":
            rhs = self.ev(s[3]).v
            lhs = self.ev(s[2])
            op = s[1]
            if op == "=":
                if lhs.v == ("undef",) or type(lhs.v) is type(rhs):
                    lhs.v = copy_value(rhs)
                    return lhs
                raise Err("dispatch")
            lhs.v = self.binop(op[0], lhs.v, rhs)
            return lhs
        if k in ("preinc", "predec"):
            b = self.ev(s[1])
            if isinstance(b.v, bool) or not isinstance(b.v, int):
                raise Err("dispatch")
            b.v += 1 if k == "preinc" else -1
            return b
        if k == "print":
            self.out.append(self.show(self.ev(s[1]).v))
            return Box(VOID)
        if k == "expr":
            return self.ev(s[1])
        if k == "if":
            if self.truth(self.ev(s[1]).v):
                return self.ex(s[2])
            if s[3] is not None:
                return self.ex(s[3])
            return Box(VOID)
        if k == "while":
            self.frames[-1].append({})
            try:
                while self.truth(self.ev(s[1]).v):
                    try:
                        self.ex(s[2])
                    except Cont:
                        pass
                    except Brk:
                        break
            finally:
                self.frames[-1].pop()
            return Box(VOID)
        if k == "for":
            self.frames[-1].append({})
            try:
                self.ex(s[1])
                while self.truth(self.ev(s[2]).v):
                    try:
                        self.ex(s[4])
                    except Cont:
                        pass
                    except Brk:
                        break
                    self.ex(s[3])
            finally:
                self.frames[-1].pop()
            return Box(VOID)
        if k == "rfor":
            c = self.ev(s[2]).v
            if not isinstance(c, list):
                raise Err("dispatch")
            for b in list(c):
                self.frames[-1].append({s[1]: b})                     # the loop variable IS the element
                try:
                    self.ex(s[3])
                except Cont:
                    pass
                except Brk:
                    break
                finally:
                    self.frames[-1].pop()
            return Box(VOID)
        if k == "break":
            raise Brk()
        if k == "continue":
            raise Cont()
        if k == "switch":
            v = self.ev(s[1]).v
            self.frames[-1].append({})
            try:
                matched = False
                try:
                    for c, body, brk in s[2]:
                        if not matched and self.binop("==", v, self.ev(c).v):
                            matched = True
                        if matched:                                  # fall through until a break
                            self.block(body + ([("break",)] if brk else []))
                    if s[3] is not None:                             # reached without a break: no case matched, or fell through
                        self.block(s[3])
                except Brk:
                    pass
            finally:
                self.frames[-1].pop()
            return Box(VOID)
        if k == "def":
            new = Closure(s[2], s[4], {}, guard=s[3])
            d = self.funs.setdefault(s[1], [])
            for old in d:
                if len(old.params) == len(new.params) and old.guard is None and new.guard is None and [t for t, _ in old.params] == [t for t, _ in new.params]:
                    raise Err("redefined")
            d.append(new)
            return Box(VOID)
        if k == "return":
            raise Ret(Box(VOID) if s[1] is None else self.ev(s[1]))
        if k == "class":
            self.classes[s[1]] = {"attrs": s[2], "ctor": Closure([(None, p) for p in s[3]], s[4], {}),
                                  "methods": {(m, len(ps_)): Closure([(None, p) for p in ps_], b, {}) for m, ps_, b in s[5]}}
            return Box(VOID)
        if k == "push":
            c = self.ev(s[1]).v
            v = self.ev(s[2]).v
            if not isinstance(c, list):
                raise Err("dispatch")
            c.append(Box(copy_value(v)))
            return Box(VOID)
        if k == "try":
            self.frames[-1].append({})
            try:
                try:
                    return self.ex(s[1])
                except Thrown as t:
                    self.frames[-1].append({s[2]: Box(t.v)})
                    try:
                        return self.ex(s[3])
                    finally:
                        self.frames[-1].pop()
                except Err as e:
                    self.frames[-1].append({s[2]: Box(("exc", e.why))})
                    try:
                        return self.ex(s[3])
                    finally:
                        self.frames[-1].pop()
            finally:
                self.frames[-1].pop()
        if k == "throw":
            raise Thrown(self.ev(s[1]).v)
        raise ValueError(k)


def run_reference(stmts, shallow_containers=False):
    SHALLOW_CONTAINERS[0] = shallow_containers
    r = Ref()
    res = "val"
    try:
        for s in stmts:
            r.ex(s)
    except Err as e:
        res = {"arith": "cpp runtimeError", "outOfRange": "cpp outOfRange"}.get(e.why, "err eval_error " + e.why)
    except Thrown as t:
        res = "thrown " + r.show(t.v)
    except Ret:
        res = "val"
    except Brk:
        res = "err break-outside-loop"
    except Cont:
        res = "err continue-outside-loop"
    return "res=%s out=%s" % (res, ",".join(r.out))
