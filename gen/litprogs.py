# Generator of raw ChaiScript programs for C08 (and as extra fodder for C02 / C04): functions whose bodies build local values from
# literals of every kind and try to mutate them through every route, each returning a digest string of everything it saw.
# The program calls them several times, interleaved, and prints (as booleans) whether equal calls gave equal digests.
# Everything random comes from the SplitMix64 passed in.

LITERALS = {
    "int": ["5", "0", "(-3)", "1 + 2", "int(5)", "2 * 3 - 1", "0x10", "7u", "3l", "9223372036854775808", "0xFFFFFFFFFFFFFFFF", "4294967296", "2147483648",
            "18446744073709551615ul", "1ll", "0b101", "017", "size_t(3)", "long(2)", "-(4)"],
    "double": ["1.5", "(-0.25)", "1.5 + 2", "double(2)", "1e2", "2.5f", "1.0l", "float(1)"],
    "bool": ["true", "false", "!false", "true && false", "1 < 2", "!(1 == 1)"],
    "string": ['"ab"', '""', '"a" + "b"', '"x${p}y"', '"tab\\tq"'],
    "char": ["'c'", "'\\n'"],
    "vector": ["[1, 2, 3]", "[]", "[p, 2]", '["a", "b"]', "[[1], [2, 3]]", "[1.5, true]", "[1 + 1, 2]"],
    "map": ['["a": 1, "b": 2]', '["k": p]', '["a": [1, 2]]', '["x": "y"]'],
    "range": ["[1..3]", "[0..p]"],
}

MUTATORS = {
    "int": ["{a} += 1", "++{a}", "{a} = 9", "{a} := 9", "{a} := p + 1", "{a} *= 2", "{a} -= 4", "--{a}", "{a} %= 2", "{a} <<= 1"],
    "double": ["{a} += 0.5", "{a} = 2.25", "{a} := 2.25", "{a} *= 2.0", "{a} /= 4.0"],
    "bool": ["{a} = !{a}", "{a} = false", "{a} = true", "{a} := false", "{a} := !{a}"],
    "string": ['{a} += "x"', '{a} := "q"', "{a}.push_back('z')", "{a}.clear()", '{a} = "q"', "{a}[0] = 'q'", '{a}.insert(0, "I")', "{a}.erase(0, 1)"],
    "char": ["{a} = 'q'"],
    "vector": ["{a}.push_back(9)", "{a}[0] = 9", "{a} := [7]", "{a}[0] := 9", "{a}.clear()", "{a}.pop_back()", "{a}[0] += 1", "{a}.push_back_ref(p)", "{a} = [7]", "{a}.resize(1)", "{a}[0].push_back(5)"],
    "map": ['{a}["k"] = 5', '{a}["a"] := 5', '{a} := ["z": 1]', "{a}.clear()", '{a}["a"] += 1', '{a}["a"] = 0', '{a}.erase("a")', '{a}["a"].push_back(3)'],
    "range": ["{a}.push_back(9)", "{a}[0] = 9", "{a}.clear()"],
}


class LitGen:
    def __init__(self, rng):
        self.rng = rng
        self.n = 0
        self.hist = {}

    def note(self, k):
        self.hist[k] = self.hist.get(k, 0) + 1

    def fresh(self, p="a"):
        self.n += 1
        return "%s%d" % (p, self.n)

    def guarded(self, stmt):
        return "try { %s } catch(e) { d += \"E\" }" % stmt

    def see(self, a):
        return "try { d += to_string(%s) + \"|\" } catch(e) { d += \"?|\" }" % a

    def piece(self):
        """one literal, one route to it, one or two mutation attempts; appends what it sees to the digest `d`"""
        r = self.rng
        kind = r.choice(list(LITERALS))
        lit = r.choice(LITERALS[kind])
        a = self.fresh()
        muts = [r.choice(MUTATORS[kind]) for _ in range(r.range(1, 2))]
        route = r.below(13)
        self.note("kind:" + kind)
        out = []
        def mutate(name):
            return [self.guarded(m.format(a=name)) for m in muts] + [self.see(name)]
        if route == 0:
            self.note("route:var=")
            out += ["var %s = %s" % (a, lit)] + mutate(a)
        elif route == 1:
            self.note("route:auto=")
            out += ["auto %s = %s" % (a, lit)] + mutate(a)
        elif route == 2:
            self.note("route:var&=")
            out += [self.guarded("var &%s = %s; %s; %s" % (a, lit, "; ".join(m.format(a=a) for m in muts), self.see(a)))]
        elif route == 3:
            self.note("route:var;=")
            out += ["var %s" % a, "%s = %s" % (a, lit)] + mutate(a)
        elif route == 4:
            self.note("route:var;:=")
            out += ["var %s" % a, self.guarded("%s := %s" % (a, lit))] + mutate(a)
        elif route == 5:
            self.note("route:param")
            f = self.fresh("m")
            out += ["var %s = fun(x) { var d = \"\"; %s; d }" % (f, "; ".join(mutate("x"))), self.guarded("d += %s(%s)" % (f, lit))]
        elif route == 6:
            self.note("route:returned")
            f = self.fresh("g")
            out += ["var %s = fun(p) { %s }" % (f, lit), "var %s = %s(p)" % (a, f)] + mutate(a) + [self.guarded("%s; %s" % (muts[0].format(a="%s(p)" % f), self.see("%s(p)" % f)))]
        elif route == 7:
            self.note("route:capture")
            f = self.fresh("c")
            out += ["var %s = %s" % (a, lit), "var %s = fun[%s]() { var d = \"\"; %s; d }" % (f, a, "; ".join(mutate(a))), "d += %s()" % f, "d += %s()" % f, self.see(a)]
        elif route == 8:
            self.note("route:in-vector")
            v = self.fresh("v")
            out += ["var %s = [%s]" % (v, lit)] + mutate("%s[0]" % v) + ["var %s = []" % a, "%s.push_back(%s)" % (a, lit)] + mutate("%s[0]" % a)
        elif route == 9:
            self.note("route:direct")
            out += [self.guarded(m.format(a="(" + lit + ")")) for m in muts] + [self.see("(" + lit + ")")]
        elif route == 10 and kind in ("vector", "range", "string", "map"):
            self.note("route:ranged-for")
            x = self.fresh("x")
            inner = {"vector": "x", "range": "x", "string": "x", "map": "x.second"}[kind]
            out += [self.guarded("for (%s : %s) { %s; %s }" % (x, lit, self.guarded("%s = %s" % (inner.replace("x", x), inner.replace("x", x))), self.see(inner.replace("x", x))))]
        elif route == 11:
            self.note("route:loop-twice")
            out += ["for (var i = 0; i < 2; ++i) { var %s = %s; %s }" % (a, lit, "; ".join(mutate(a)))]
        else:
            self.note("route:ref-of-var")
            b = self.fresh("b")
            out += ["var %s = %s" % (a, lit), "var &%s = %s" % (b, a)] + mutate(b) + [self.see(a)]
        return out

    def function(self, name):
        stmts = ["var d = \"\""]
        for _ in range(self.rng.range(1, 4)):
            stmts += self.piece()
        stmts.append("d")
        return "def %s(p) { %s }" % (name, "; ".join(stmts))

    def program(self):
        r = self.rng
        nf = r.range(1, 3)
        fs = ["fn%d" % k for k in range(nf)]
        defs = [self.function(f) for f in fs]
        calls, checks = [], []
        seen = {}
        order = [(r.choice(fs), r.choice([1, 2])) for _ in range(r.range(4, 7))]
        order += [order[0], order[0]]                       # at least three equal calls
        for k, (f, arg) in enumerate(order):
            v = "r%d" % k
            calls.append("var %s = %s(%d)" % (v, f, arg))
            if (f, arg) in seen:
                checks.append("pr(%s == %s)" % (seen[(f, arg)], v))
            else:
                seen[(f, arg)] = v
        return "; ".join(defs + calls + checks + ["pr(r0.size() >= 0)"])
