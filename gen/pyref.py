# An independent reference interpreter (plain Python, Python's own exceptions and scoping discipline) for
# the core-language s-expressions.  It is written against the *documented* semantics, not against the
# C++ code or the Lean model, and serves as the specification oracle for C03 and C10.
import re


class Box:                       # a variable cell; `var &r = x`, `:=`, parameters and captures share boxes
    # two levels, as in Boxed_Value: the record (this Box: flags + which object) and the object (a one-element list holding the value).
    # `x := y` copies y's record into x's: both records then name one object
    __slots__ = ("o", "const", "ret")

    def __init__(self, v, const=False):
        self.o, self.const = [v], const
        self.ret = False            # the record of a by-value C++ result (return-value flag): a parameter bound to it is not assignable

    @property
    def v(self):
        return self.o[0]

    @v.setter
    def v(self, x):
        self.o[0] = x


class Thrown(Exception):         # script `throw(x)` or a Boxed_Value thrown by a callback
    def __init__(self, box):
        self.box = box


class EvalError(Exception):
    def __init__(self, why):
        self.why = why


class Cpp(Exception):            # C++ exception from a callback (or arithmetic_error)
    def __init__(self, kind):
        self.kind = kind


class Brk(Exception):
    pass


class Cont(Exception):
    pass


class Ret(Exception):
    def __init__(self, box):
        self.box = box


class Fn:
    def __init__(self, params, body, caps, guard=None):
        # a parameter is a name or [type, name]
        self.params = [p[1] if isinstance(p, list) else p for p in params]
        self.ptys = [p[0] if isinstance(p, list) else None for p in params]
        self.body, self.caps, self.guard = body, caps, guard

    def accepts(self, i, v):
        t = self.ptys[i]
        if t is None:
            return True
        return {"int": isinstance(v, int) and not isinstance(v, bool), "bool": isinstance(v, bool),
                "string": isinstance(v, str)}.get(t, False)


UNDEF, VOID = ("undef",), ("void",)


def parse(s):
    toks = re.findall(r"\(|\)|[^\s()]+", s)
    pos = 0

    def rd():
        nonlocal pos
        t = toks[pos]
        pos += 1
        if t == "(":
            out = []
            while toks[pos] != ")":
                out.append(rd())
            pos += 1
            return out
        return t
    return rd()


class Interp:
    def __init__(self, fault_at=10 ** 6, fault_kind="std", max_steps=200000):
        self.out, self.nat, self.ncb = [], [], 0
        self.overflow = False        # an integer left the int range somewhere, printed or not: the run is outside what this interpreter specifies
        self.fault_at, self.fault_kind = fault_at, fault_kind
        self.funs = {}                     # name -> list of overloads (Fn) in registration order
        self.frames = [[{}]]               # stack of frames; frame = list of scopes (dict name -> Box)
        self.steps, self.max_steps = 0, max_steps

    # ------------------------------------------------------------ names
    def lookup(self, x):
        for sc in reversed(self.frames[-1]):
            if x in sc:
                return sc[x]
        if x in self.funs:
            return Box(("fobj", x), True)
        raise EvalError("cantFind")

    def declare(self, x, box):
        sc = self.frames[-1][-1]
        if x in sc:
            raise EvalError("redefined")
        sc[x] = box

    def truth(self, box):
        if not isinstance(box.v, bool):
            raise EvalError("condNotBool")
        return box.v

    # ------------------------------------------------------------ evaluation
    def block(self, stmts):
        self.frames[-1].append({})
        try:
            r = Box(VOID)
            for s in stmts:
                r = self.ev(s)
            return r
        finally:
            self.frames[-1].pop()

    def call(self, f, args):
        if isinstance(f.v, Fn):
            fn = f.v
            if len(fn.params) != len(args):
                raise EvalError("dispatch")
        elif isinstance(f.v, tuple) and f.v[0] == "fobj":
            # overload resolution: the overloads of that arity whose typed parameters accept the arguments; the one with the
            # most exactly-typed parameters first, guarded before unguarded, then in order of definition; the first whose
            # guard holds is called.  An exception raised by a guard is an exception of the call.
            cands = [(sum(1 for i in range(len(args)) if fn.ptys[i] is None), fn.guard is None, k, fn)
                     for k, fn in enumerate(self.funs[f.v[1]]) if len(fn.params) == len(args)]
            chosen = None
            for _, _, _, fn in sorted(cands, key=lambda c: c[:3]):
                if not all(fn.accepts(i, a.v) for i, a in enumerate(args)):
                    continue
                if fn.guard is not None:
                    self.frames.append([{}])
                    try:
                        for p, a in zip(fn.params, args):
                            self.declare(p, a)
                        try:
                            g = self.ev(fn.guard)
                        except Ret as r:
                            g = r.box
                    finally:
                        self.frames.pop()
                    if g.v is not True:
                        continue
                chosen = fn
                break
            if chosen is None:
                raise EvalError("dispatch")
            fn = chosen
        else:
            raise EvalError("notFunction")
        self.frames.append([dict(sorted(fn.caps.items()))])
        try:
            for p, a in zip(fn.params, args):
                self.declare(p, a)                       # parameters alias the arguments
            try:
                return self.ev(fn.body)
            except Ret as r:
                return r.box
        finally:
            self.frames.pop()

    def ev(self, n):
        self.steps += 1
        if self.steps > self.max_steps:
            raise RuntimeError("step limit")
        op = n[0]
        if op == "int":
            return Box(int(n[1]), True)
        if op == "bool":
            return Box(n[1] == "1", True)
        if op == "str":
            return Box("s" + n[1], True)
        if op in ("id", "fid"):
            return self.lookup(n[1])
        if op == "var" or op == "ref":
            b = Box(UNDEF)
            self.declare(n[1], b)
            return b
        if op == "decl":
            v = self.ev(n[2])
            b = Box(v.v)                                  # `var x = e` copies the value
            self.declare(n[1], b)
            return b
        if op == "eq":
            rhs = self.ev(n[3])
            lhs_is_ref = n[2][0] == "ref"
            if lhs_is_ref:
                b = Box(None, rhs.const)                  # `var &r = x`: r gets its own record naming x's object
                b.o = rhs.o
                self.declare(n[2][1], b)
                return rhs
            lhs = self.ev(n[2])
            if lhs.ret:
                raise EvalError("assignTemp")             # only a parameter can name such a record (declarations copy or make a new record)
            if lhs.const:
                raise EvalError("assignConst")
            o = n[1]
            if o == ":=":
                if lhs.v is UNDEF or (type(lhs.v) == type(rhs.v) and type(lhs.v) in (int, bool, str)):
                    lhs.o, lhs.const = rhs.o, rhs.const       # `lhs.assign(rhs)`: the lhs record now names the rhs object
                    return rhs
                raise EvalError("mismatched")
            if o == "=":
                if lhs.v is UNDEF or type(lhs.v) == type(rhs.v):
                    lhs.v = rhs.v
                    return lhs
                raise EvalError("dispatch")
            if type(lhs.v) is int and type(rhs.v) is int:
                lhs.v = lhs.v + rhs.v if o == "+=" else lhs.v - rhs.v if o == "-=" else lhs.v * rhs.v
                if abs(lhs.v) >= 2 ** 31:
                    self.overflow = True
                return lhs
            raise EvalError("dispatch")
        if op == "bin":
            a, b = self.ev(n[2]).v, self.ev(n[3]).v
            o = n[1]
            if type(a) is int and type(b) is int:
                if o in "/%" and b == 0:
                    raise Cpp("runtimeError")
                if o == "/":
                    q = abs(a) // abs(b)
                    return Box(q if (a < 0) == (b < 0) else -q, True)
                if o == "%":
                    r = abs(a) % abs(b)
                    return Box(r if a >= 0 else -r, True)
                res = {"+": a + b, "-": a - b, "*": a * b, "<": a < b, "<=": a <= b, ">": a > b, ">=": a >= b, "==": a == b, "!=": a != b}[o]
                if type(res) is int and abs(res) >= 2 ** 31:
                    self.overflow = True
                return Box(res, True)
            if type(a) is type(b) and type(a) in (bool, str) and o in ("==", "!="):
                return Box((a == b) == (o == "=="))
            raise EvalError("dispatch")
        if op == "pre":
            a = self.ev(n[2])
            o = n[1]
            if o == "neg" and type(a.v) is int:
                return Box(-a.v, True)
            if o == "not" and type(a.v) is bool:
                return Box(not a.v)
            if o in ("inc", "dec") and type(a.v) is int:
                if a.const:
                    raise EvalError("assignConst")
                a.v += 1 if o == "inc" else -1
                return a
            raise EvalError("dispatch")
        if op == "and":
            return Box(self.truth(self.ev(n[1])) and self.truth(self.ev(n[2])), True)
        if op == "or":
            return Box(self.truth(self.ev(n[1])) or self.truth(self.ev(n[2])), True)
        if op == "block":
            return self.block(n[1:])
        if op == "if":
            if self.truth(self.ev(n[1])):
                return self.ev(n[2])
            return self.ev(n[3]) if len(n) > 3 else Box(VOID)
        if op == "while":
            self.frames[-1].append({})
            try:
                while self.truth(self.ev(n[1])):
                    try:
                        self.ev(n[2])
                    except Cont:
                        pass
            except Brk:
                pass
            finally:
                self.frames[-1].pop()
            return Box(VOID)
        if op == "for":
            self.frames[-1].append({})
            try:
                self.ev(n[1])
                while self.truth(self.ev(n[2])):
                    try:
                        self.ev(n[4])
                    except Cont:
                        pass
                    self.ev(n[3])
            except Brk:
                pass
            finally:
                self.frames[-1].pop()
            return Box(VOID)
        if op == "break":
            raise Brk()
        if op == "continue":
            raise Cont()
        if op == "return":
            raise Ret(self.ev(n[1]) if len(n) > 1 else Box(VOID))
        if op == "print":
            self.out.append(self.ev(n[1]).v)
            return Box(VOID)
        if op == "throw":
            raise Thrown(self.ev(n[1]))
        if op == "cb":
            args = [self.ev(a).v for a in n[2:]]
            self.nat.append((int(n[1]), args))
            k = self.ncb
            self.ncb += 1
            if k == self.fault_at:
                fk = self.fault_kind
                if fk == "boxed":
                    raise Thrown(Box(777))
                if fk == "eval":
                    raise EvalError("other")
                raise Cpp({"runtime": "runtimeError", "range": "outOfRange", "std": "stdException", "nonstd": "nonStd"}[fk])
            b = Box(int(n[1]))
            b.ret = True
            return b
        if op == "call":
            args = [self.ev(a) for a in n[2:]]
            f = self.ev(n[1])
            return self.call(f, args)
        if op == "lambda":
            caps = {c: self.lookup(c) for c in n[1]}
            for c in n[1]:
                if isinstance(caps[c].v, tuple) and caps[c].v[0] == "fobj":
                    raise EvalError("cantFind")
            return Box(Fn(n[2], n[3], caps))
        if op in ("def", "defg"):
            new = Fn(n[2], n[3], {}) if op == "def" else Fn(n[2], n[4], {}, guard=n[3])
            d = self.funs.setdefault(n[1], [])
            for old in d:
                if len(old.params) == len(new.params) and old.guard is None and new.guard is None and old.ptys == new.ptys:
                    raise EvalError("redefined")
            d.append(new)
            return Box(VOID)
        if op == "try":
            body, clauses = n[1], n[2:]
            fin = [c for c in clauses if c[0] == "finally"]
            catches = [c for c in clauses if c[0] == "catch"]
            self.frames[-1].append({})
            try:
                ok = False
                r = None
                try:
                    try:
                        r = self.ev(body)
                    except (Thrown, EvalError, Cpp) as e:
                        if isinstance(e, Cpp) and e.kind == "nonStd":
                            raise                               # not a std::exception: no clause can see it
                        exc = e.box if isinstance(e, Thrown) else Box(("exc",), True)
                        # the C++ class of a C++ exception: exception > runtime_error > eval_error; exception > logic_error > out_of_range
                        kind = None if isinstance(e, Thrown) else ("evalError" if isinstance(e, EvalError) else e.kind)
                        classes = {None: (), "evalError": ("exception", "runtime_error", "eval_error"), "runtimeError": ("exception", "runtime_error"),
                                   "outOfRange": ("exception", "logic_error", "out_of_range"), "stdException": ("exception", "logic_error")}[kind]
                        for c in catches:
                            if len(c) == 2:                     # catch { ... }
                                r = self.block_in_scope(c[1], None, None)
                                break
                            ty = c[2] if len(c) == 4 else None
                            if ty is None or (ty == "int" and type(exc.v) is int) or (ty == "bool" and type(exc.v) is bool) \
                                    or (ty == "string" and type(exc.v) is str) or ty in classes:
                                r = self.block_in_scope(c[-1], c[1], exc)
                                break
                        else:
                            raise                               # no clause accepts it: it continues outward
                    ok = True
                finally:
                    if fin:                                     # exactly once, on every path
                        rf = self.ev(fin[0][1])
                        if ok:
                            r = rf
                return r
            finally:
                self.frames[-1].pop()
        if op == "noop":
            return Box(VOID)
        raise NotImplementedError(op)

    def block_in_scope(self, blk, name, box):
        self.frames[-1].append({})
        try:
            if name is not None:
                self.declare(name, box)
            return self.ev(blk)
        finally:
            self.frames[-1].pop()


def show(v, depth=3):
    if v is UNDEF:
        return "undef"
    if v is VOID:
        return "void"
    if isinstance(v, bool):
        return "b1" if v else "b0"
    if isinstance(v, int):
        return "i%d" % v
    if isinstance(v, str):
        return v
    if isinstance(v, Fn) or (isinstance(v, tuple) and v and v[0] == "fobj"):
        return "fn"
    if isinstance(v, tuple) and v and v[0] == "exc":
        return "exc"
    return "?"


def run_program(sexp, fault_at=10 ** 6, fault_kind="std"):
    """-> the same line the Lean model prints (without the shape field)"""
    it = Interp(fault_at, fault_kind)
    prog = parse(sexp)
    try:
        r = Box(VOID)
        try:
            for st in prog:
                r = it.ev(st)
            res = "val " + show(r.v)
        except Ret as e:
            res = "val " + show(e.box.v)
    except EvalError as e:
        res = "err eval_error " + e.why
    except Thrown as e:
        res = "thrown " + show(e.box.v)
    except Cpp as e:
        res = "cpp " + e.kind
    except Brk:
        res = "err break-outside-loop"
    except Cont:
        res = "err continue-outside-loop"
    names = ",".join(it.frames[0][0].keys()) if it.frames and it.frames[0] else ""
    if it.overflow:
        return "res=INT-RANGE-LEFT i%d out= nat= names=" % (2 ** 40)      # read as 'big integer' by every caller's skip rule
    return "res=%s out=%s nat=%s names=%s" % (res, ",".join(show(x) for x in it.out),
                                             ",".join("%d:%s" % (k, "/".join(show(a) for a in args)) for k, args in it.nat), names)
