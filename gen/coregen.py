# C03: generator of core-language program trees for gen/core.py (printer + reference interpreter).
# Mostly valid, terminating, type-correct programs with small integer values; a small rate of deliberate run-time errors.


class CoreGen:
    def __init__(self, rng, maxdepth=3):
        self.rng = rng
        self.maxdepth = maxdepth
        self.nv = 0
        self.nf = 0
        self.scopes = [{}]                # name -> type: int | bool | str | vec | map | obj:<C> | ctr (read-only int)
        self.funs = {}                    # name -> (arity, ret type)
        self.classes = {}                 # cname -> [attrs]
        self.in_fn = 0
        self.in_loop = 0
        self.hist = {}
        self.flags = set()

    def note(self, k):
        self.hist[k] = self.hist.get(k, 0) + 1

    def fresh(self, p="v"):
        self.nv += 1
        return "%s%d" % (p, self.nv)

    def vars_of(self, ty, writable=False):
        out = []
        for sc in self.scopes:
            for n, t in sc.items():
                if t == ty or (ty == "int" and t == "ctr" and not writable):
                    out.append(n)
        return out

    def declare(self, n, ty):
        self.scopes[-1][n] = ty

    # ---------------------------------------------------------------- expressions
    def int_expr(self, d=0):
        r = self.rng
        vs = self.vars_of("int")
        k = r.below(16)
        if d >= 3 or k < 3:
            if vs and r.chance(2, 3):
                return ("id", r.choice(vs))
            return ("int", r.choice([0, 1, 2, 3, 5, 7, 10, r.range(0, 20)]))
        if k < 7:
            op = r.choice(["+", "-", "*", "+", "-", "*", "&", "|", "^"])
            return ("bin", op, self.int_expr(d + 1), self.int_expr(d + 1))
        if k == 7:
            return ("bin", r.choice(["/", "%"]), self.int_expr(d + 1), ("int", r.choice([1, 2, 3, 7])))
        if k == 8:
            return ("bin", r.choice(["<<", ">>"]), self.small_nonneg(d + 1), ("int", r.range(0, 3)))
        if k == 9:
            return ("neg", self.int_expr(d + 1))
        if k == 10:
            self.note("ternary")
            return ("tern", self.bool_expr(d + 1), self.int_expr(d + 1), self.int_expr(d + 1))
        if k == 11:
            fs = [f for f, (a, t) in self.funs.items() if t == "int" and a <= 2]
            if fs:
                f = r.choice(fs)
                self.note("call")
                return ("call", ("id", f), [self.int_expr(d + 1) for _ in range(self.funs[f][0])])
        if k == 12:
            vecs = self.vars_of("vec")
            if vecs:
                v = r.choice(vecs)
                return r.choice([("isize", ("id", v)), ("index", ("id", v), ("int", 0))])
        if k == 13:
            objs = [(n, t) for sc in self.scopes for n, t in sc.items() if t.startswith("obj:")]
            if objs:
                n, t = r.choice(objs)
                self.note("object-use")
                return r.choice([("attr", ("id", n), "a"), ("mcall", ("id", n), "get", []), ("mcall", ("id", n), "add", [self.int_expr(d + 1)])])
        if k == 14:
            maps = self.vars_of("map")
            if maps:
                return r.choice([("isize", ("id", r.choice(maps))), ("index", ("id", r.choice(maps)), ("str", "k"))])
        if k == 15:
            strs = self.vars_of("str")
            if strs:
                return ("isize", ("id", r.choice(strs)))
        return ("bin", r.choice(["+", "-"]), self.int_expr(d + 1), self.int_expr(d + 1))

    def small_nonneg(self, d):
        return ("bin", "&", self.int_expr(d), ("int", 7))

    def bool_expr(self, d=0):
        r = self.rng
        vs = self.vars_of("bool")
        k = r.below(10)
        if d >= 3 or k == 0:
            if vs and r.chance(1, 2):
                return ("id", r.choice(vs))
            return ("bool", r.chance(1, 2))
        if k < 5:
            return ("bin", r.choice(["<", "<=", ">", ">=", "==", "!="]), self.int_expr(d + 1), self.int_expr(d + 1))
        if k == 5:
            return ("and", self.bool_expr(d + 1), self.bool_expr(d + 1))
        if k == 6:
            return ("or", self.bool_expr(d + 1), self.bool_expr(d + 1))
        if k == 7:
            return ("not", self.bool_expr(d + 1))
        if k == 8:
            return ("bin", r.choice(["==", "!="]), self.bool_expr(d + 1), self.bool_expr(d + 1))
        strs = self.vars_of("str")
        if strs:
            return ("bin", r.choice(["==", "!="]), ("id", r.choice(strs)), self.str_expr(d + 1))
        return ("tern", self.bool_expr(d + 1), self.bool_expr(d + 1), self.bool_expr(d + 1))

    def str_expr(self, d=0):
        r = self.rng
        vs = self.vars_of("str")
        if d >= 2 or r.chance(1, 2):
            if vs and r.chance(1, 2):
                return ("id", r.choice(vs))
            return ("str", r.choice(["ab", "c", "q", "xyz"]))
        return ("bin", "+", self.str_expr(d + 1), self.str_expr(d + 1))

    # ---------------------------------------------------------------- statements
    def block(self, depth, n=None, first=None, scope=None):
        self.scopes.append(dict(scope or {}))
        stmts = list(first or [])
        for _ in range(n if n is not None else self.rng.range(1, 3)):
            stmts += self.stmt(depth + 1)
        self.scopes.pop()
        return ("block", stmts)

    def stmt(self, depth):
        """-> list of statements"""
        r = self.rng
        k = r.below(30)
        ints = self.vars_of("int", writable=True)
        if depth >= self.maxdepth:
            k = r.choice([0, 1, 2, 3, 4])
        if k == 0 or (k in (1, 2) and not ints):
            n = self.fresh()
            t = r.choice(["int", "int", "int", "bool", "str"])
            e = {"int": self.int_expr, "bool": self.bool_expr, "str": self.str_expr}[t]()
            self.declare(n, t)
            return [("decl", n, e)]
        if k == 1:
            self.note("assign")
            return [("assign", r.choice(["=", "+=", "-=", "*=", "="]), ("id", r.choice(ints)), self.int_expr())]
        if k == 2:
            return [(r.choice(["preinc", "predec"]), ("id", r.choice(ints)))]
        if k in (3, 4, 5):
            self.note("print")
            c = r.below(6)
            if c == 0:
                return [("print", self.bool_expr())]
            if c == 1:
                return [("print", self.str_expr())]
            return [("print", self.int_expr())]
        if k == 6:
            self.note("if-chain")
            s = ("if", self.bool_expr(), self.block(depth), None)
            if r.chance(2, 3):
                tail = self.block(depth) if r.chance(1, 2) else None
                for _ in range(r.range(0, 2)):
                    tail = ("if", self.bool_expr(), self.block(depth), tail)
                s = ("if", s[1], s[2], tail)
            return [s]
        if k == 7:
            self.note("while")
            c = self.fresh()
            self.in_loop += 1
            body = self.block(depth, first=[("preinc", ("id", c))], scope={c: "ctr"})
            self.in_loop -= 1
            return [("block", [("decl", c, ("int", 0)), ("while", ("bin", "<", ("id", c), ("int", r.range(1, 3))), body)])]
        if k == 8:
            self.note("for")
            c = self.fresh()
            self.in_loop += 1
            body = self.block(depth, scope={c: "ctr"})
            self.in_loop -= 1
            lim = r.range(0, 3)
            if r.chance(1, 2):
                return [("for", ("decl", c, ("int", 0)), ("bin", "<", ("id", c), ("int", lim)), ("preinc", ("id", c)), body)]
            return [("for", ("decl", c, ("int", lim)), ("bin", ">", ("id", c), ("int", 0)), ("predec", ("id", c)), body)]
        if k == 9:
            self.note("nested-block-shadowing")
            # an inner block may redeclare an outer name: the outer one is untouched afterwards
            outer = [n for n in self.vars_of("int", writable=True)]
            if outer:
                n = r.choice(outer)
                inner = self.block(depth, first=[("decl", n, self.int_expr()), ("assign", "+=", ("id", n), ("int", 1)), ("print", ("id", n))], n=1, scope={n: "int"})
                return [inner, ("print", ("id", n))]
            return [self.block(depth)]
        if k == 10 and self.in_loop and depth > 0:
            self.note("break/continue")
            return [("if", self.bool_expr(), ("block", [(r.choice(["break", "continue"]),)]), None)]
        if k == 11 and self.in_fn:
            self.note("early-return")
            return [("if", self.bool_expr(), ("block", [("return", self.int_expr())]), None)]
        if k == 12 and depth == 0 and not self.in_fn:
            return self.def_stmt()
        if k == 13:
            return self.lambda_stmt(depth)
        if k == 14 and ints:
            self.note("reference")
            n = self.fresh()
            tgt = r.choice(ints)
            self.declare(n, "int")
            return [("ref", n, ("id", tgt)), ("assign", r.choice(["=", "+="]), ("id", n), self.int_expr()), ("print", ("id", tgt))]
        if k == 15:
            self.note("switch")
            vals = r.shuffle([0, 1, 2, 3, 4])[:r.range(1, 3)]
            cases = []
            for v in vals:
                self.scopes.append({})
                body = []
                for _ in range(r.range(1, 2)):
                    body += self.stmt(depth + 2)
                self.scopes.pop()
                cases.append((("int", v), body, r.chance(1, 2)))
            default = None
            if r.chance(2, 3):
                self.scopes.append({})
                default = self.stmt(depth + 2)
                self.scopes.pop()
            return [("switch", ("bin", "%", ("bin", "&", self.int_expr(1), ("int", 15)), ("int", 5)), cases, default)]
        if k == 16:
            return self.vector_stmt(depth)
        if k == 17:
            return self.map_stmt()
        if k == 18 and depth == 0 and not self.in_fn and len(self.classes) < 2:
            return self.class_stmt()
        if k == 19:
            return self.object_stmt()
        if k == 20:
            self.note("string-ops")
            strs = self.vars_of("str")
            if strs:
                s = r.choice(strs)
                return [("assign", r.choice(["+=", "="]), ("id", s), self.str_expr()), ("print", ("id", s))]
        if k == 21 and depth == 0 and not self.in_fn:
            return self.guard_ladder_stmt() if r.chance(1, 6) else self.recursion_stmt()
        if k == 22:
            self.note("try-throw")
            e = self.fresh("e")
            body = self.block(depth, first=[("if", self.bool_expr(), ("block", [("throw", self.int_expr())]), None)])
            handler = self.block(depth, first=[("print", ("id", e))], n=0, scope={e: "ctr"})
            return [("try", body, e, handler)]
        if k == 23 and r.chance(1, 5):
            self.note("error")
            return [r.choice([("print", ("id", "nosuchname")), ("print", ("bin", "/", ("int", 1), ("int", 0))), ("if", ("int", 1), ("block", [("print", ("int", 1))]), None),
                              ("print", ("index", ("vec", [("int", 1)]), ("int", 5))), ("expr", ("call", ("int", 3), []))])]
        if k == 24:
            return self.container_copy_probe()
        return [("print", self.int_expr())]

    def def_stmt(self):
        r = self.rng
        self.note("def")
        self.nf += 1
        f = "f%d" % self.nf
        ar = r.range(0, 2)
        params = [(None, self.fresh("p")) for _ in range(ar)]
        if ar and r.chance(1, 3):
            self.note("typed-param")
            params[0] = ("int", params[0][1])
        guard = None
        saved, self.scopes = self.scopes, [{p: "ctr" for _, p in params}]
        if ar and r.chance(1, 4):
            self.note("guard")
            guard = ("bin", r.choice(["<", ">", "!="]), ("id", params[0][1]), ("int", r.range(0, 3)))
        self.in_fn += 1
        saved_loop, self.in_loop = self.in_loop, 0
        body = self.block(0)
        self.scopes.append({})
        tail = self.int_expr()
        self.scopes.pop()
        body = ("block", body[1] + [("return", tail) if r.chance(1, 2) else ("expr", tail)])
        self.in_loop = saved_loop
        self.in_fn -= 1
        self.scopes = saved
        out = [("def", f, params, guard, body)]
        if guard is not None and r.chance(2, 3):
            out.append(("def", f, [(None, p) for _, p in params], None, ("block", [("expr", ("int", -1))])))       # unguarded fallback
        self.funs[f] = (ar, "int")
        return out

    def guard_ladder_stmt(self):
        """many overloads of one name that differ only in their guards (more than a small-array sort handles in place): the first guard, in
        definition order, that holds decides — however many there are and whatever was defined in between"""
        r = self.rng
        self.note("guard-ladder")
        self.nf += 1
        f = "f%d" % self.nf
        p = self.fresh("p")
        n = r.choice([3, 9, 16, 17, 18, 21, 24, 33])
        step = r.range(1, 4)
        out = []
        for i in range(n - 1, -1, -1):
            out.append(("def", f, [(None, p)], ("bin", ">=", ("id", p), ("int", i * step)), ("block", [("expr", ("int", i * step))])))
        if r.chance(2, 3):
            out.append(("def", f, [(None, p)], None, ("block", [("expr", ("int", -1))])))
        self.funs[f] = (1, "int")
        for _ in range(r.range(3, 6)):
            out.append(("print", ("call", ("id", f), [("int", r.range(-2, n * step + 2))])))
        return out

    def recursion_stmt(self):
        r = self.rng
        self.note("recursion")
        self.nf += 1
        f = "f%d" % self.nf
        n, acc = self.fresh("p"), self.fresh()
        body = ("block", [("if", ("bin", "<=", ("id", n), ("int", 0)), ("block", [("return", ("int", 1))]), None),
                          ("decl", acc, ("call", ("id", f), [("bin", "-", ("id", n), ("int", 1))])),
                          ("return", ("bin", r.choice(["+", "*"]), ("id", acc), ("bin", "+", ("id", n), ("int", 1))))])
        return [("def", f, [(None, n)], None, body), ("print", ("call", ("id", f), [("int", r.range(0, 4))]))]

    def lambda_stmt(self, depth):
        r = self.rng
        self.note("lambda")
        ints = self.vars_of("int", writable=True)
        caps = [r.choice(ints)] if ints and r.chance(2, 3) else []
        p = self.fresh("p")
        saved, self.scopes = self.scopes, [{p: "ctr", **{c: "int" for c in caps}}]
        self.in_fn += 1
        saved_loop, self.in_loop = self.in_loop, 0
        body = self.block(0, n=1)
        extra = []
        if caps and r.chance(1, 2):
            self.note("capture-mutated")
            extra = [("assign", "+=", ("id", caps[0]), ("id", p))]         # captures alias the captured variable
        self.scopes.append({})
        tail = self.int_expr()
        self.scopes.pop()
        body = ("block", body[1] + extra + [("expr", tail)])
        self.in_loop = saved_loop
        self.in_fn -= 1
        self.scopes = saved
        n = self.fresh()
        out = [("decl", n, ("lambda", caps, [p], body)), ("print", ("call", ("id", n), [self.int_expr()]))]
        if caps:
            out.append(("print", ("id", caps[0])))
        return [("block", out)] if r.chance(1, 2) else out + []   # (a lambda variable declared at this level stays usable; not tracked)

    def vector_stmt(self, depth):
        r = self.rng
        self.note("vector")
        vecs = self.vars_of("vec")
        if not vecs or r.chance(1, 3):
            n = self.fresh()
            e = ("vec", [self.int_expr(1) for _ in range(r.range(1, 3))])
            self.declare(n, "vec")
            return [("decl", n, e)]
        v = r.choice(vecs)
        c = r.below(4)
        if c == 0:
            return [("push", ("id", v), self.int_expr(1)), ("print", ("isize", ("id", v)))]
        if c == 1:
            return [("assign", r.choice(["=", "+="]), ("index", ("id", v), ("int", 0)), self.int_expr(1)), ("print", ("id", v))]
        if c == 2:
            self.note("ranged-for")
            x = self.fresh("x")
            self.in_loop += 1
            body = self.block(depth, first=[("assign", "+=", ("id", x), ("int", 1)), ("print", ("id", x))], n=1, scope={x: "int"})
            self.in_loop -= 1
            return [("rfor", x, ("id", v), body), ("print", ("id", v))]
        return [("print", ("index", ("id", v), ("bin", "%", ("bin", "&", self.int_expr(1), ("int", 7)), ("isize", ("id", v)))))]

    def map_stmt(self):
        r = self.rng
        self.note("map")
        maps = self.vars_of("map")
        if not maps:
            n = self.fresh()
            e = ("map", [("k", self.int_expr(1)), ("j", self.int_expr(1))])
            self.declare(n, "map")
            return [("decl", n, e)]
        m = r.choice(maps)
        key = r.choice(["k", "j", "n"])
        return [("assign", "=", ("index", ("id", m), ("str", key)), self.int_expr(1)), ("print", ("isize", ("id", m))), ("print", ("index", ("id", m), ("str", key)))]

    def class_stmt(self):
        r = self.rng
        self.note("class")
        c = "C%d" % (len(self.classes) + 1)
        self.classes[c] = ["a"]
        ctor = ("block", [("assign", "=", ("attr", ("id", "this"), "a"), ("bin", "+", ("id", "x"), ("int", r.range(0, 3))))])
        get = ("get", [], ("block", [("expr", ("attr", ("id", "this"), "a"))]))
        add = ("add", ["n"], ("block", [("assign", "+=", ("attr", ("id", "this"), "a"), ("id", "n")), ("expr", ("attr", ("id", "this"), "a"))]))
        return [("class", c, ["a"], ["x"], ctor, [get, add])]

    def object_stmt(self):
        r = self.rng
        if not self.classes:
            return [("print", self.int_expr())]
        self.note("object")
        c = r.choice(list(self.classes))
        objs = [n for sc in self.scopes for n, t in sc.items() if t == "obj:" + c]
        if not objs or r.chance(1, 3):
            n = self.fresh("o")
            e = ("new", c, [self.int_expr(1)])
            self.declare(n, "obj:" + c)
            return [("decl", n, e)]
        o = r.choice(objs)
        k = r.below(4)
        if k == 0:
            return [("assign", r.choice(["=", "+="]), ("attr", ("id", o), "a"), self.int_expr(1)), ("print", ("mcall", ("id", o), "get", []))]
        if k == 1:
            self.note("object-copy")
            n = self.fresh("o")
            self.declare(n, "obj:" + c)
            return [("decl", n, ("id", o)), ("expr", ("mcall", ("id", n), "add", [("int", 5)])), ("print", ("attr", ("id", o), "a")), ("print", ("attr", ("id", n), "a"))]
        if k == 2:
            self.note("object-reference")
            n = self.fresh("o")
            self.declare(n, "obj:" + c)
            return [("ref", n, ("id", o)), ("expr", ("mcall", ("id", n), "add", [("int", 5)])), ("print", ("attr", ("id", o), "a"))]
        return [("print", ("mcall", ("id", o), "add", [self.int_expr(1)]))]

    def container_copy_probe(self):
        """`var b = a` on a container, then an element of the copy is assigned: the original must not change"""
        r = self.rng
        vecs, maps = self.vars_of("vec"), self.vars_of("map")
        if not vecs and not maps:
            return [("print", self.int_expr())]
        self.note("container-copy-then-element-write")
        self.flags.add("container-copy-element-write")
        n = self.fresh()
        if vecs and (not maps or r.chance(1, 2)):
            a = r.choice(vecs)
            self.declare(n, "vec")
            return [("decl", n, ("id", a)), ("assign", "=", ("index", ("id", n), ("int", 0)), ("int", 77)), ("print", ("id", a)), ("print", ("id", n))]
        a = r.choice(maps)
        self.declare(n, "map")
        return [("decl", n, ("id", a)), ("assign", "=", ("index", ("id", n), ("str", "k")), ("int", 77)), ("print", ("index", ("id", a), ("str", "k")))]

    def program(self, nstmts):
        out = []
        for _ in range(nstmts):
            out += self.stmt(0)
        return out
