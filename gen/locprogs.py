# C20: multi-line programs with ONE injected fault at a known (file, line, column) and known enclosing call sites.
# The generator builds the text line by line, so the ground truth needs no parser.  Everything random comes from the SplitMix64 passed in.


class Chunk:
    def __init__(self, name, eol):
        self.name, self.eol = name, eol
        self.lines = []

    def add(self, text):
        self.lines.append(text)
        return len(self.lines)                 # 1-based line number of the line just added

    def text(self):
        return self.eol.join(self.lines) + self.eol


def filler(rng, ch, allow_multiline=True):
    for _ in range(rng.range(0, 3)):
        k = rng.below(9)
        if k >= 7:
            # an interpolated string: its expression is parsed by a nested parser run, which must hand file name and position back
            ch.add("pr(\"v ${%d + %d} w\")%s" % (rng.below(9), rng.below(9), rng.choice(["", "  // ${x}", "; pr(\"${%d}\")" % rng.below(9)])))
        elif k == 0:
            ch.add("")
        elif k == 1:
            ch.add("// a comment with f1(1, 2, 3) and nosuch in it")
        elif k == 2:
            ch.add("   \t ")
        elif k == 3 and allow_multiline:
            ch.add("/* a comment")
            ch.add("   over several lines: nosuch(1) */")
        elif k == 4:
            ch.add("var q%d = %d + %d" % (rng.below(1000) + 1000 * len(ch.lines), rng.below(9), rng.below(9)))
        elif k == 5:
            ch.add("  pr(%d);  pr(\"x\")" % rng.below(9))
        else:
            ch.add("#hash comment")


def gen(rng):
    """-> (chunks [(file name, text)], expected top (file, line, col, kind), expected call sites [(file, line, col)] innermost first, description)"""
    nfiles = rng.range(1, 3)
    chunks = [Chunk("file%d.chai" % i, rng.choice(["\n", "\n", "\r\n"])) for i in range(nfiles)]
    depth = rng.range(0, 4)                                        # number of script functions between the top-level call and the fault
    fault = rng.choice(["id", "id", "unknown-call", "arity", "arity-typed"])
    calls = []                                                     # outermost first, reversed at the end
    helper_chunk = chunks[0]
    if fault in ("arity", "arity-typed"):
        filler(rng, helper_chunk)
        helper_chunk.add("def two(a, b) { a + b }" if fault == "arity" else "def two(int a, int b) { a + b }")

    def emit_site(ch, indent, expr_start_text, body_text):
        """add a line `indent + prefix + body` and return (line, col of body's first char, enclosing wrappers [(line, col)] innermost first)"""
        wrap = rng.below(9)
        ind = indent + " " * rng.below(4) + ("\t" if rng.chance(1, 6) else "")
        wrappers = []
        if wrap == 0:
            pre, post = "", ""
        elif wrap == 1:
            pre, post = "var r%d = " % rng.below(100000), ""
        elif wrap == 2:
            pre, post = "1 + ", " * 2"
        elif wrap == 3:
            pre, post = "pr(", ")"
        elif wrap == 4:
            pre, post = "if (true) { ", " }"
        elif wrap == 5:
            pre, post = "pr(1); ", "; pr(2)"
        elif wrap == 6:
            # a statement (not the first) of a loop body: Unused_Return rebuilds such call nodes
            k = rng.below(100000)
            pre, post = "var w%d = 0; while (w%d < 1) { ++w%d; pr(0); " % (k, k, k), "; pr(2) }"
        elif wrap == 7:
            k = rng.below(100000)
            pre, post = "for (var k%d = 0; k%d < 1; ++k%d) { pr(0); " % (k, k, k), rng.choice(["; pr(2) }", " }"])
        else:
            k = rng.below(100000)
            pre, post = "var w%d = 0; while (w%d < 1) { ++w%d; if (true) { pr(0); " % (k, k, k), " } }"
        ln = ch.add(ind + pre + body_text + post)
        col = len(ind) + len(pre) + 1
        if wrap == 3:
            wrappers.append((ln, len(ind) + 1))
        return ln, col, wrappers

    # functions f1 .. f<depth>: f<i> calls f<i+1>; the last one contains the fault
    order = list(range(depth, 0, -1)) if rng.chance(1, 2) else list(range(1, depth + 1))
    sites = {}
    for i in order:
        ch = rng.choice(chunks)
        filler(rng, ch)
        ch.add("def f%d(a)" % i + rng.choice([" {", "", "  {  // open"]))
        if ch.lines[-1].endswith("(a)"):
            ch.add("{")
        filler(rng, ch)
        if i < depth:
            ln, col, wr = emit_site(ch, "  ", None, "f%d(a + 1)" % (i + 1))
            sites[i] = (ch.name, ln, col, [(ch.name, l, c) for l, c in wr])
        else:
            sites[i] = ("FAULT", ch)
            body = {"id": "nosuch", "unknown-call": "nosuchfn(a)", "arity": "two(a)", "arity-typed": "two(a, \"s\")"}[fault]
            ln, col, wr = emit_site(ch, "  ", None, body)
            sites["fault"] = (ch.name, ln, col, [(ch.name, l, c) for l, c in wr])
        filler(rng, ch, allow_multiline=False)
        ch.add("}")
    top = chunks[-1] if rng.chance(2, 3) else rng.choice(chunks)
    filler(rng, top)
    if depth == 0:
        body = {"id": "nosuch", "unknown-call": "nosuchfn(3)", "arity": "two(3)", "arity-typed": "two(3, \"s\")"}[fault]
        ln, col, wr = emit_site(top, "", None, body)
        sites["fault"] = (top.name, ln, col, [(top.name, l, c) for l, c in wr])
        topsite = None
    else:
        ln, col, wr = emit_site(top, "", None, "f1(0)")
        topsite = (top.name, ln, col, [(top.name, l, c) for l, c in wr])
    filler(rng, top)
    # evaluation order: every chunk but `top` first (definitions), `top` last; if top also holds definitions they come before its call anyway
    ordered = [c for c in chunks if c is not top] + [top]
    ffile, fl, fc, fwr = sites["fault"]
    kind = {"id": "Id", "unknown-call": "Id", "arity": "Fun_Call", "arity-typed": "Fun_Call"}[fault]
    exp_calls = []
    if fault != "id":
        exp_calls.append((ffile, fl, fc))                # the failing call expression itself is the innermost active call
    exp_calls += fwr
    for i in range(depth - 1, 0, -1):
        f, l, c, wr = sites[i]
        exp_calls.append((f, l, c))
        exp_calls += wr
    if topsite:
        f, l, c, wr = topsite
        exp_calls.append((f, l, c))
        exp_calls += wr
    why = {"id": "cantFind", "unknown-call": "cantFind", "arity": "dispatch", "arity-typed": "dispatch"}[fault]
    return [(c.name, c.text()) for c in ordered if c.lines], (ffile, fl, fc, kind), exp_calls, "%s depth=%d files=%d" % (fault, depth, nfiles), why
